//! C14 — out-of-range lengths and values are rejected, never truncated.
//!
//! Table driven: one row per length-taking API. The *true* limit and alignment rule of every
//! row comes from the width of the wire field (RFC 791 total length 16 bit, RFC 8200 payload
//! length 16 bit, RFC 768 length 16 bit, TCP/ICMPv6 pseudo header lengths 16/32 bit, IEEE 802.1AE
//! short length 6 bit, RFC 4302 payload len 8 bit in 4 byte units, RFC 8200 hdr ext len 8 bit
//! in 8 byte units, IHL / data offset 4 bit, ARP hlen/plen 8 bit) — stated here, not read from
//! the crate. Probes: {0, 1, limit-2 … limit+2, alignment neighbours, 2^16±2, 2^32±2, usize::MAX}.
//! Accept ⇔ representable; accepted value is encoded exactly; rejection carries the offending
//! and the allowed value and leaves the object unchanged.
//!
//! Huge slices are untouched anonymous NORESERVE mappings (all zero pages, no RSS). The accept
//! side of the 2^32 limits reads 4 GiB and runs in the thorough tier only.

use super::{Monitor, Tier};
use crate::arena;
use crate::prng::Prng;
use crate::report::{jstr, Report};
use crate::shell;
use etherparse::*;

pub struct C14 {
    big: Option<(*const u8, usize)>,
    thorough: bool,
}

impl C14 {
    pub fn new() -> C14 {
        C14 {
            big: None,
            thorough: false,
        }
    }

    /// a slice of `n` zero bytes (n may exceed 4 GiB)
    fn zeros(&mut self, n: usize) -> &'static [u8] {
        const CAP: usize = (1usize << 32) + (1 << 20);
        assert!(n <= CAP);
        if self.big.is_none() {
            #[cfg(not(miri))]
            unsafe {
                let p = arena::mmap(
                    std::ptr::null_mut(),
                    CAP,
                    arena::PROT_READ,
                    arena::MAP_PRIVATE | arena::MAP_ANONYMOUS | arena::MAP_NORESERVE,
                    -1,
                    0,
                );
                assert!(p as isize != -1, "mmap of the zero mapping failed");
                self.big = Some((p as *const u8, CAP));
            }
            #[cfg(miri)]
            {
                let v: &'static mut [u8] = Box::leak(vec![0u8; 1 << 17].into_boxed_slice());
                self.big = Some((v.as_ptr(), v.len()));
            }
        }
        let (p, cap) = self.big.unwrap();
        assert!(n <= cap);
        unsafe { std::slice::from_raw_parts(p, n) }
    }
}

fn probes(limit: usize, extra: &[usize]) -> Vec<usize> {
    let mut v = vec![0usize, 1, 2, 3, 4, 7, 8];
    for d in 0..=4usize {
        v.push(limit.saturating_sub(d));
        v.push(limit.saturating_add(d));
    }
    for b in [1usize << 16, 1usize << 32] {
        for d in 0..=2usize {
            v.push(b - d);
            v.push(b + d);
        }
    }
    v.push(usize::MAX);
    v.push(usize::MAX - 1);
    v.extend_from_slice(extra);
    v.sort();
    v.dedup();
    v
}

struct Verdict<'a> {
    rep: &'a mut Report,
    api: &'static str,
}

impl<'a> Verdict<'a> {
    /// judge one probe of a "value too big" style API
    fn too_big(
        &mut self,
        len: usize,
        limit: usize,
        result: Result<Option<usize>, (usize, usize)>,
        unchanged: bool,
    ) {
        self.rep.evals += 1;
        let api = self.api;
        match result {
            Ok(encoded) => {
                if len > limit {
                    self.rep.violation(
                        &format!("accepts_unrepresentable|{}", api),
                        format!("{} accepted length {} although the field limit is {}", api, len, limit),
                        &[],
                    );
                } else if let Some(e) = encoded {
                    if e != len {
                        self.rep.violation(
                            &format!("encoded_value_differs|{}", api),
                            format!("{} accepted length {} but the encoded field decodes to {}", api, len, e),
                            &[],
                        );
                    } else {
                        self.rep.count(&format!("accepted.{}", api));
                    }
                } else {
                    self.rep.count(&format!("accepted.{}", api));
                }
            }
            Err((actual, max_allowed)) => {
                if len <= limit {
                    self.rep.violation(
                        &format!("rejects_representable|{}", api),
                        format!("{} rejected length {} although the field can represent up to {}", api, len, limit),
                        &[],
                    );
                } else if actual != len || max_allowed != limit {
                    self.rep.violation(
                        &format!(
                            "error_fields|{}|{}{}",
                            api,
                            if actual != len { "actual" } else { "" },
                            if max_allowed != limit { "+max_allowed" } else { "" }
                        ),
                        format!(
                            "{} rejected length {}: error says actual={} max_allowed={}, true maximum is {}",
                            api, len, actual, max_allowed, limit
                        ),
                        &[],
                    );
                } else if !unchanged {
                    self.rep.violation(
                        &format!("modified_on_error|{}", api),
                        format!("{} rejected length {} but modified the object", api, len),
                        &[],
                    );
                } else {
                    self.rep.count(&format!("rejected.{}", api));
                }
            }
        }
        self.rep.sig(&format!("{}|{}", api, (len > limit) as u8 + 2 * (len == limit) as u8 + 4 * (len.wrapping_add(1) == limit) as u8));
    }
}

impl C14 {
    fn ipv4(&mut self, rep: &mut Report, rng: &mut Prng) {
        // RFC 791: total length 16 bit, counts the header (IHL*4) too
        let optw = rng.below(11) as usize;
        let opts = vec![1u8; optw * 4];
        let mut base = Ipv4Header::new(0, 64, IpNumber(17), [1, 2, 3, 4], [5, 6, 7, 8]).unwrap();
        base.set_options(&opts).unwrap();
        let hl = 20 + optw * 4;
        let limit = 65535 - hl;
        for len in probes(limit, &[limit / 2]) {
            let mut h = base.clone();
            let r = h.set_payload_len(len);
            let unchanged = h == base;
            let mut v = Verdict { rep, api: "Ipv4Header::set_payload_len" };
            v.too_big(
                len,
                limit,
                r.map(|_| Some((h.total_len as usize).wrapping_sub(hl))).map_err(|e| (e.actual, e.max_allowed)),
                unchanged,
            );
            if len <= 65535 {
                let r = Ipv4Header::new(len as u16, 1, IpNumber(6), [0; 4], [0; 4]);
                let mut v = Verdict { rep, api: "Ipv4Header::new" };
                v.too_big(
                    len,
                    65535 - 20,
                    r.map(|h| Some((h.total_len as usize).wrapping_sub(20))).map_err(|e| (e.actual as usize, e.max_allowed as usize)),
                    true,
                );
            }
        }
        if base.max_payload_len() as usize != limit {
            rep.violation(
                "max_payload_len|Ipv4Header",
                format!("max_payload_len() = {} with {} option bytes, true maximum {}", base.max_payload_len(), optw * 4, limit),
                &[],
            );
        }
        // IpHeaders::set_payload_len adds the extension headers
        let icvw = rng.below(6) as usize;
        let auth = IpAuthHeader::new(IpNumber(17), 1, 2, &vec![0u8; icvw * 4]).unwrap();
        let ext_len = 12 + icvw * 4;
        for with_ext in [false, true] {
            let exts = Ipv4Extensions {
                auth: if with_ext { Some(auth.clone()) } else { None },
            };
            let e = if with_ext { ext_len } else { 0 };
            let basep = IpHeaders::Ipv4(base.clone(), exts);
            let limit = 65535 - hl - e;
            for len in probes(limit, &[]) {
                let mut h = basep.clone();
                let r = h.set_payload_len(len);
                let unchanged = h == basep;
                let enc = match &h {
                    IpHeaders::Ipv4(x, _) => (x.total_len as usize).wrapping_sub(hl + e),
                    _ => 0,
                };
                let mut v = Verdict {
                    rep,
                    api: if with_ext { "IpHeaders::set_payload_len(ipv4+auth)" } else { "IpHeaders::set_payload_len(ipv4)" },
                };
                v.too_big(len, limit, r.map(|_| Some(enc)).map_err(|e| (e.actual, e.max_allowed)), unchanged);
            }
        }
    }

    fn ipv6(&mut self, rep: &mut Report, rng: &mut Prng) {
        // RFC 8200: payload length 16 bit, counts the extension headers
        let base = Ipv6Header {
            payload_length: 0x1234,
            ..Default::default()
        };
        for len in probes(65535, &[]) {
            let mut h = base.clone();
            let r = h.set_payload_length(len);
            let unchanged = h == base;
            let mut v = Verdict { rep, api: "Ipv6Header::set_payload_length" };
            v.too_big(len, 65535, r.map(|_| Some(h.payload_length as usize)).map_err(|e| (e.actual, e.max_allowed)), unchanged);
        }
        let units = rng.below(4) as usize;
        let dest = Ipv6RawExtHeader::new_raw(IpNumber(17), &vec![0u8; 6 + 8 * units]).unwrap();
        let ext_len = 8 + 8 * units;
        for with_ext in [false, true] {
            let exts = Ipv6Extensions {
                destination_options: if with_ext { Some(dest.clone()) } else { None },
                ..Default::default()
            };
            let e = if with_ext { ext_len } else { 0 };
            let basep = IpHeaders::Ipv6(base.clone(), exts);
            let limit = 65535 - e;
            for len in probes(limit, &[]) {
                let mut h = basep.clone();
                let r = h.set_payload_len(len);
                let unchanged = h == basep;
                let enc = match &h {
                    IpHeaders::Ipv6(x, _) => (x.payload_length as usize).wrapping_sub(e),
                    _ => 0,
                };
                let mut v = Verdict {
                    rep,
                    api: if with_ext { "IpHeaders::set_payload_len(ipv6+ext)" } else { "IpHeaders::set_payload_len(ipv6)" },
                };
                v.too_big(len, limit, r.map(|_| Some(enc)).map_err(|e| (e.actual, e.max_allowed)), unchanged);
            }
        }
    }

    fn udp(&mut self, rep: &mut Report) {
        // RFC 768: length 16 bit incl. the 8 byte header
        let limit = 65535 - 8;
        for len in probes(limit, &[]) {
            let r = UdpHeader::without_ipv4_checksum(1, 2, len);
            let mut v = Verdict { rep, api: "UdpHeader::without_ipv4_checksum" };
            v.too_big(len, limit, r.map(|h| Some((h.length as usize).wrapping_sub(8))).map_err(|e| (e.actual, e.max_allowed)), true);
        }
        let ip4 = Ipv4Header::new(0, 1, IpNumber(17), [1, 2, 3, 4], [5, 6, 7, 8]).unwrap();
        let ip6 = Ipv6Header::default();
        let slice_probes: Vec<usize> = probes(limit, &[]).into_iter().filter(|l| *l <= (1 << 16) + 2).collect();
        for len in slice_probes {
            let p = self.zeros(len);
            let r = UdpHeader::with_ipv4_checksum(1, 2, &ip4, p);
            let mut v = Verdict { rep, api: "UdpHeader::with_ipv4_checksum" };
            v.too_big(len, limit, r.map(|h| Some((h.length as usize).wrapping_sub(8))).map_err(|e| (e.actual, e.max_allowed)), true);
            let r = UdpHeader::with_ipv6_checksum(1, 2, &ip6, p);
            let mut v = Verdict { rep, api: "UdpHeader::with_ipv6_checksum" };
            v.too_big(len, limit, r.map(|h| Some((h.length as usize).wrapping_sub(8))).map_err(|e| (e.actual, e.max_allowed)), true);
            let hdr = UdpHeader {
                source_port: 1,
                destination_port: 2,
                length: 8,
                checksum: 0,
            };
            let r = hdr.calc_checksum_ipv4(&ip4, p);
            let mut v = Verdict { rep, api: "UdpHeader::calc_checksum_ipv4" };
            v.too_big(len, limit, r.map(|_| None).map_err(|e| (e.actual, e.max_allowed)), true);
            let r = hdr.calc_checksum_ipv4_raw([1, 2, 3, 4], [5, 6, 7, 8], p);
            let mut v = Verdict { rep, api: "UdpHeader::calc_checksum_ipv4_raw" };
            v.too_big(len, limit, r.map(|_| None).map_err(|e| (e.actual, e.max_allowed)), true);
        }
    }

    /// pseudo header lengths: IPv4 16 bit (TCP length), IPv6 32 bit upper-layer packet length
    fn pseudo(&mut self, rep: &mut Report, rng: &mut Prng) {
        let optw = rng.below(11) as usize;
        let mut tcp = TcpHeader::new(1, 2, 3, 4);
        tcp.set_options_raw(&vec![1u8; optw * 4]).unwrap();
        let hl = 20 + optw * 4;
        let ip4 = Ipv4Header::new(0, 1, IpNumber(6), [1, 2, 3, 4], [5, 6, 7, 8]).unwrap();
        let limit4 = 65535 - hl;
        for len in probes(limit4, &[]).into_iter().filter(|l| *l <= (1 << 16) + 2) {
            let p = self.zeros(len);
            let r = tcp.calc_checksum_ipv4(&ip4, p);
            let mut v = Verdict { rep, api: "TcpHeader::calc_checksum_ipv4" };
            v.too_big(len, limit4, r.map(|_| None).map_err(|e| (e.actual, e.max_allowed)), true);
            let r = tcp.calc_checksum_ipv4_raw([1, 2, 3, 4], [5, 6, 7, 8], p);
            let mut v = Verdict { rep, api: "TcpHeader::calc_checksum_ipv4_raw" };
            v.too_big(len, limit4, r.map(|_| None).map_err(|e| (e.actual, e.max_allowed)), true);
            // the slice doors have their own copies of the limit
            {
                let hb = tcp.to_bytes();
                let hs = TcpHeaderSlice::from_slice(&hb).unwrap();
                let ip4b = ip4.to_bytes();
                let ip4s = Ipv4HeaderSlice::from_slice(&ip4b).unwrap();
                let r = hs.calc_checksum_ipv4(&ip4s, p);
                let mut v = Verdict { rep, api: "TcpHeaderSlice::calc_checksum_ipv4" };
                v.too_big(len, limit4, r.map(|_| None).map_err(|e| (e.actual, e.max_allowed)), true);
                let r = hs.calc_checksum_ipv4_raw([1, 2, 3, 4], [5, 6, 7, 8], p);
                let mut v = Verdict { rep, api: "TcpHeaderSlice::calc_checksum_ipv4_raw" };
                v.too_big(len, limit4, r.map(|_| None).map_err(|e| (e.actual, e.max_allowed)), true);
                // an accepted length is encoded exactly: same checksum as the struct door (which C09 judges against the RFC)
                if len <= limit4 {
                    let a = tcp.calc_checksum_ipv4_raw([1, 2, 3, 4], [5, 6, 7, 8], p).ok();
                    let b = hs.calc_checksum_ipv4_raw([1, 2, 3, 4], [5, 6, 7, 8], p).ok();
                    let want = crate::refmodel::checksum::tcp_v4([1, 2, 3, 4], [5, 6, 7, 8], &hb, p);
                    rep.evals += 1;
                    if a != want || b != want {
                        rep.violation(
                            "pseudo_header_length_not_encoded_exactly|TcpHeader(Slice)::calc_checksum_ipv4_raw",
                            format!("TCP segment of {} + {} bytes over IPv4: struct door {:?}, slice door {:?}, reference {:?}", hl, len, a, b, want),
                            &[],
                        );
                    } else {
                        rep.count("pseudo4_exact");
                    }
                }
                if len <= 70_000 {
                    let mut seg = hb.to_vec();
                    seg.extend_from_slice(p);
                    let ts = TcpSlice::from_slice(&seg).unwrap();
                    let r = ts.calc_checksum_ipv4([1, 2, 3, 4], [5, 6, 7, 8]);
                    let mut v = Verdict { rep, api: "TcpSlice::calc_checksum_ipv4" };
                    v.too_big(len, limit4, r.map(|_| None).map_err(|e| (e.actual.saturating_sub(hl), e.max_allowed.saturating_sub(hl))), true);
                }
            }
            let mut th = TransportHeader::Tcp({
                let mut t = tcp.clone();
                t.checksum = 0xbeef;
                t
            });
            let before = th.clone();
            let r = th.update_checksum_ipv4(&ip4, p);
            rep.evals += 1;
            if r.is_ok() != (len <= limit4) {
                rep.violation(
                    "accept_vs_limit|TransportHeader::update_checksum_ipv4(tcp)",
                    format!("length {} limit {} -> {:?}", len, limit4, r.map_err(|e| format!("{:?}", e))),
                    &[],
                );
            } else if r.is_err() && th != before {
                rep.violation("modified_on_error|TransportHeader::update_checksum_ipv4(tcp)", format!("length {}", len), &[]);
            } else {
                rep.count("transport_header.update_checksum_ipv4");
            }
        }
        // IPv6: the upper-layer packet length of the pseudo header is a 32 bit field. Lengths that no
        // longer fit 16 bit are accepted, so they have to be *encoded exactly*: the only place the field
        // shows is the checksum, which is compared with the reference over (pseudo header with the
        // true 32 bit length, header, payload) for every door.
        #[cfg(not(miri))]
        {
            let src6 = [0x11u8; 16];
            let dst6 = [0x22u8; 16];
            let mut ip6h = Ipv6Header::default();
            ip6h.source = src6;
            ip6h.destination = dst6;
            let lens = [65535 - hl, 65536 - hl, 65536, 65537, 70_000, 131_072 + 3];
            let len = lens[rng.usize_below(lens.len())];
            let mut seg = tcp.to_bytes().to_vec();
            let payload = rng.bytes(len);
            seg.extend_from_slice(&payload);
            let want = crate::refmodel::checksum::tcp_v6(src6, dst6, &seg[..hl], &payload);
            let mut doors: Vec<(&'static str, Result<u16, String>)> = Vec::new();
            doors.push(("TcpHeader::calc_checksum_ipv6", tcp.calc_checksum_ipv6(&ip6h, &payload).map_err(|e| format!("{:?}", e))));
            doors.push(("TcpHeader::calc_checksum_ipv6_raw", tcp.calc_checksum_ipv6_raw(src6, dst6, &payload).map_err(|e| format!("{:?}", e))));
            let hs = TcpHeaderSlice::from_slice(&seg).unwrap();
            doors.push(("TcpHeaderSlice::calc_checksum_ipv6", hs.calc_checksum_ipv6(&Ipv6HeaderSlice::from_slice(&ip6h.to_bytes()).unwrap(), &payload).map_err(|e| format!("{:?}", e))));
            doors.push(("TcpHeaderSlice::calc_checksum_ipv6_raw", hs.calc_checksum_ipv6_raw(src6, dst6, &payload).map_err(|e| format!("{:?}", e))));
            let ts = TcpSlice::from_slice(&seg).unwrap();
            doors.push(("TcpSlice::calc_checksum_ipv6", ts.calc_checksum_ipv6(src6, dst6).map_err(|e| format!("{:?}", e))));
            let mut th = TransportHeader::Tcp(tcp.clone());
            let r = th.update_checksum_ipv6(&ip6h, &payload).map_err(|e| format!("{:?}", e));
            doors.push(("TransportHeader::update_checksum_ipv6(tcp)", r.map(|_| match &th {
                TransportHeader::Tcp(t) => t.checksum,
                _ => 0,
            })));
            for (api, got) in doors {
                rep.evals += 1;
                match (&got, want) {
                    (Ok(g), Some(w)) if *g == w => rep.count(&format!("pseudo6_exact.{}", api)),
                    _ => rep.violation(
                        &format!("pseudo_header_length_not_encoded_exactly|{}", api),
                        format!("{}: TCP segment of {} bytes over IPv6: checksum {:?}, the pseudo header with the 32 bit length {} gives {:?}", api, hl + len, got, hl + len, want),
                        &[],
                    ),
                }
            }
            // ICMPv6: same 32 bit field
            let icmp = Icmpv6Type::EchoRequest(IcmpEchoHeader { id: 1, seq: 2 });
            let mut msg = vec![128u8, 0, 0, 0, 0, 1, 0, 2];
            msg.extend_from_slice(&payload);
            let want = crate::refmodel::checksum::icmpv6(src6, dst6, &msg);
            let got = icmp.calc_checksum(src6, dst6, &payload).map_err(|e| format!("{:?}", e));
            rep.evals += 1;
            match (&got, want) {
                (Ok(g), Some(w)) if *g == w => rep.count("pseudo6_exact.Icmpv6Type::calc_checksum"),
                _ => rep.violation(
                    "pseudo_header_length_not_encoded_exactly|Icmpv6Type::calc_checksum",
                    format!("ICMPv6 message of {} bytes: checksum {:?}, reference {:?}", msg.len(), got, want),
                    &[],
                ),
            }
        }
        // 2^32 limits: the reject side never reads the payload
        #[cfg(not(miri))]
        {
            let limit6_tcp = (u32::MAX as usize) - hl;
            let limit6_udp = (u32::MAX as usize) - 8;
            let limit6_icmp = (u32::MAX as usize) - 8;
            let ip6 = Ipv6Header::default();
            let udp = UdpHeader {
                source_port: 1,
                destination_port: 2,
                length: 8,
                checksum: 0,
            };
            let icmp = Icmpv6Type::EchoRequest(IcmpEchoHeader { id: 1, seq: 2 });
            // per API: reject side (limit+1 ..., never reads the payload) always; accept side
            // (limit, limit-1: reads ~4 GiB of zero page per call) in the thorough tier only
            let thorough = self.thorough;
            let lens_for = |limit: usize| -> Vec<usize> {
                let mut v = vec![70_000usize, limit + 1, limit + 2, limit + 3, (1usize << 32) + 2];
                if thorough {
                    v.push(limit);
                    v.push(limit - 1);
                }
                v.sort();
                v.dedup();
                v
            };
            for len in lens_for(limit6_tcp) {
                let p = self.zeros(len);
                let r = tcp.calc_checksum_ipv6(&ip6, p);
                let mut v = Verdict { rep, api: "TcpHeader::calc_checksum_ipv6" };
                v.too_big(len, limit6_tcp, r.map(|_| None).map_err(|e| (e.actual, e.max_allowed)), true);
                if len > limit6_tcp || len == 70_000 {
                    let r = tcp.calc_checksum_ipv6_raw([1; 16], [2; 16], p);
                    let mut v = Verdict { rep, api: "TcpHeader::calc_checksum_ipv6_raw" };
                    v.too_big(len, limit6_tcp, r.map(|_| None).map_err(|e| (e.actual, e.max_allowed)), true);
                }
            }
            for len in lens_for(limit6_udp) {
                let p = self.zeros(len);
                let r = udp.calc_checksum_ipv6_raw([1; 16], [2; 16], p);
                let mut v = Verdict { rep, api: "UdpHeader::calc_checksum_ipv6_raw" };
                v.too_big(len, limit6_udp, r.map(|_| None).map_err(|e| (e.actual, e.max_allowed)), true);
                if len > limit6_udp || len == 70_000 {
                    let r = udp.calc_checksum_ipv6(&ip6, p);
                    let mut v = Verdict { rep, api: "UdpHeader::calc_checksum_ipv6" };
                    v.too_big(len, limit6_udp, r.map(|_| None).map_err(|e| (e.actual, e.max_allowed)), true);
                }
            }
            for len in lens_for(limit6_icmp) {
                let p = self.zeros(len);
                let r = icmp.calc_checksum([1; 16], [2; 16], p);
                let mut v = Verdict { rep, api: "Icmpv6Type::calc_checksum" };
                v.too_big(len, limit6_icmp, r.map(|_| None).map_err(|e| (e.actual, e.max_allowed)), true);
                if len > limit6_icmp || len == 70_000 {
                    let r = Icmpv6Header::with_checksum(icmp.clone(), [1; 16], [2; 16], p);
                    let mut v = Verdict { rep, api: "Icmpv6Header::with_checksum" };
                    v.too_big(len, limit6_icmp, r.map(|_| None).map_err(|e| (e.actual, e.max_allowed)), true);
                    // (a header that already holds a checksum: "unchanged" is only visible then)
                    let mut ih = Icmpv6Header::new(icmp.clone());
                    ih.checksum = 0x1234;
                    let before = ih.clone();
                    let r = ih.update_checksum([1; 16], [2; 16], p);
                    let unchanged = r.is_ok() || ih == before;
                    let mut v = Verdict { rep, api: "Icmpv6Header::update_checksum" };
                    v.too_big(len, limit6_icmp, r.map(|_| None).map_err(|e| (e.actual, e.max_allowed)), unchanged);
                    if len > limit6_icmp {
                        // the same through the transport header wrapper, for all three kinds
                        let mut u = udp.clone();
                        u.checksum = 0x4321;
                        let mut t = tcp.clone();
                        t.checksum = 0x4321;
                        for mut th in [TransportHeader::Icmpv6(before.clone()), TransportHeader::Udp(u), TransportHeader::Tcp(t)] {
                            let prior = th.clone();
                            let r = th.update_checksum_ipv6(&ip6, p);
                            rep.evals += 1;
                            if r.is_ok() {
                                rep.violation("accept_vs_limit|TransportHeader::update_checksum_ipv6", format!("length {} accepted for {:?}", len, prior), &[]);
                            } else if th != prior {
                                rep.violation("modified_on_error|TransportHeader::update_checksum_ipv6", format!("length {}: {:?} became {:?}", len, prior, th), &[]);
                            } else {
                                rep.count("rejected.TransportHeader::update_checksum_ipv6(unchanged)");
                            }
                        }
                    }
                }
            }
        }
    }

    fn macsec(&mut self, rep: &mut Report) {
        // IEEE 802.1AE: short length 6 bit; counts the 2 ether type bytes of an unmodified
        // payload; 0 = "unknown / not representable" (documented)
        for len in probes(63, &[59, 60, 61, 62, 64, 65, 66, 255, 256, 257]) {
            for (unmod, name) in [(true, "MacsecHeader::set_payload_len(unmodified)"), (false, "MacsecHeader::set_payload_len(modified)")] {
                let mut h = MacsecHeader {
                    ptype: if unmod { MacsecPType::Unmodified(EtherType(0x0800)) } else { MacsecPType::Modified },
                    endstation_id: false,
                    scb: false,
                    an: MacsecAn::default(),
                    short_len: MacsecShortLen::try_from_u8(9).unwrap(),
                    packet_nr: 1,
                    sci: None,
                };
                h.set_payload_len(len);
                rep.evals += 1;
                let counted = len.checked_add(if unmod { 2 } else { 0 });
                let want = match counted {
                    Some(c) if c <= 63 => c as u8,
                    _ => 0,
                };
                // decode side: what the encoded byte says
                let bytes = h.to_bytes();
                let sl = bytes[1] & 0x3f;
                if h.short_len.value() != want || sl != want {
                    rep.violation(
                        &format!("short_len|{}", name),
                        format!("{}: payload length {} -> short_len {} (encoded {}), expected {}", name, len, h.short_len.value(), sl, want),
                        &[],
                    );
                } else {
                    rep.count(if want == 0 && len != 0 { "macsec.unknown_fallback" } else { "macsec.encoded_exactly" });
                }
            }
            let sl = MacsecShortLen::from_len(len);
            rep.evals += 1;
            let want = if len <= 63 { len as u8 } else { 0 };
            if sl.value() != want {
                rep.violation("short_len|MacsecShortLen::from_len", format!("from_len({}) = {}, expected {}", len, sl.value(), want), &[]);
            }
        }
    }

    fn auth_and_ext(&mut self, rep: &mut Report, rng: &mut Prng) {
        // RFC 4302: payload len 8 bit = (12 + icv)/4 - 2  => icv <= (255+2)*4-12 = 1016, 4 byte units
        let limit = 1016usize;
        let base = IpAuthHeader::new(IpNumber(6), 1, 2, &[9, 9, 9, 9]).unwrap();
        for len in probes(limit, &[4, 5, 6, 8, 12, 1012, 1013, 1015, 1017, 1019, 1020, 1024]).into_iter().filter(|l| *l <= 70_000) {
            let icv: Vec<u8> = (0..len).map(|i| (i * 7 + 1) as u8).collect();
            let ok_expected = len <= limit && len % 4 == 0;
            for via_new in [true, false] {
                rep.evals += 1;
                let name = if via_new { "IpAuthHeader::new" } else { "IpAuthHeader::set_raw_icv" };
                let mut h = base.clone();
                let r = if via_new {
                    IpAuthHeader::new(IpNumber(6), 1, 2, &icv).map(|x| h = x)
                } else {
                    h.set_raw_icv(&icv)
                };
                match r {
                    Ok(()) => {
                        let b = h.to_bytes();
                        let enc_len = 4 * (b[1] as usize + 2);
                        if !ok_expected {
                            rep.violation(&format!("accepts_unrepresentable|{}", name), format!("{} accepted an ICV of {} bytes", name, len), &[]);
                        } else if h.raw_icv() != &icv[..] || enc_len != 12 + len || b.len() != 12 + len || b[12..] != icv[..] {
                            rep.violation(&format!("encoded_value_differs|{}", name), format!("{}: ICV of {} bytes not encoded exactly", name, len), &b);
                        } else {
                            rep.count(&format!("accepted.{}", name));
                        }
                    }
                    Err(e) => {
                        let (too_big, val) = match e {
                            err::ip_auth::IcvLenError::TooBig(v) => (true, v),
                            err::ip_auth::IcvLenError::Unaligned(v) => (false, v),
                        };
                        if ok_expected {
                            rep.violation(&format!("rejects_representable|{}", name), format!("{} rejected an ICV of {} bytes", name, len), &[]);
                        } else if val != len || (too_big && len <= limit) || (!too_big && len > limit && len % 4 == 0) {
                            rep.violation(&format!("error_fields|{}", name), format!("{}: ICV of {} bytes rejected with {:?}", name, len, e), &[]);
                        } else if !via_new && h != base {
                            rep.violation(&format!("modified_on_error|{}", name), format!("len {}", len), &[]);
                        } else {
                            rep.count(&format!("rejected.{}", name));
                        }
                    }
                }
                rep.sig(&format!("{}|{}|{}", name, len > limit, len % 4));
            }
        }
        // RFC 8200: hdr ext len 8 bit in 8 byte units not counting the first 8 bytes:
        // payload (behind next header + length byte) = 6 + 8*n, n <= 255  => <= 2046
        let limit = 2046usize;
        let base = Ipv6RawExtHeader::new_raw(IpNumber(6), &[1, 2, 3, 4, 5, 6]).unwrap();
        let _ = rng;
        for len in probes(limit, &[5, 6, 13, 14, 15, 2038, 2039, 2040, 2045, 2047, 2054]).into_iter().filter(|l| *l <= 70_000) {
            let pl: Vec<u8> = (0..len).map(|i| (i * 5 + 3) as u8).collect();
            let ok_expected = len >= 6 && len <= limit && (len + 2) % 8 == 0;
            for via_new in [true, false] {
                rep.evals += 1;
                let name = if via_new { "Ipv6RawExtHeader::new_raw" } else { "Ipv6RawExtHeader::set_payload" };
                let mut h = base.clone();
                let r = if via_new {
                    Ipv6RawExtHeader::new_raw(IpNumber(6), &pl).map(|x| h = x)
                } else {
                    h.set_payload(&pl)
                };
                match r {
                    Ok(()) => {
                        let b = h.to_bytes();
                        if !ok_expected {
                            rep.violation(&format!("accepts_unrepresentable|{}", name), format!("{} accepted a payload of {} bytes", name, len), &[]);
                        } else if h.payload() != &pl[..] || b.len() != len + 2 || 8 * (b[1] as usize + 1) != len + 2 || b[2..] != pl[..] {
                            rep.violation(&format!("encoded_value_differs|{}", name), format!("{}: payload of {} bytes not encoded exactly", name, len), &b);
                        } else {
                            rep.count(&format!("accepted.{}", name));
                        }
                    }
                    Err(e) => {
                        use err::ipv6_exts::ExtPayloadLenError::*;
                        let consistent = match e {
                            TooSmall(v) => v == len && len < 6,
                            TooBig(v) => v == len && len > limit,
                            Unaligned(v) => v == len && (len + 2) % 8 != 0,
                        };
                        if ok_expected {
                            rep.violation(&format!("rejects_representable|{}", name), format!("{} rejected a payload of {} bytes", name, len), &[]);
                        } else if !consistent {
                            rep.violation(&format!("error_fields|{}", name), format!("{}: payload of {} bytes rejected with {:?}", name, len, e), &[]);
                        } else if !via_new && h != base {
                            rep.violation(&format!("modified_on_error|{}", name), format!("len {}", len), &[]);
                        } else {
                            rep.count(&format!("rejected.{}", name));
                        }
                    }
                }
                rep.sig(&format!("{}|{}|{}", name, len > limit, len % 8));
            }
        }
    }

    fn options(&mut self, rep: &mut Report) {
        // IHL 4 bit: at most 60 byte header = 40 option bytes, multiples of 4
        let base = Ipv4Header::new(0, 1, IpNumber(6), [0; 4], [0; 4]).unwrap();
        // (and the lengths that wrap onto an acceptable value when narrowed to 8 or 16 bit)
        for len in (0..=70usize).chain(250..=300).chain(508..=520).chain(65_530..=65_580) {
            let data: Vec<u8> = (0..len).map(|i| (i as u8).wrapping_add(1)).collect();
            let ok_expected = len <= 40 && len % 4 == 0;
            rep.evals += 2;
            let mut h = base.clone();
            match h.set_options(&data) {
                Ok(()) => {
                    let b = h.to_bytes();
                    if !ok_expected {
                        rep.violation("accepts_unrepresentable|Ipv4Header::set_options", format!("accepted {} option bytes", len), &[]);
                    } else if h.options() != &data[..] || (b[0] & 0x0f) as usize * 4 != 20 + len || b.len() != 20 + len || b[20..] != data[..] {
                        rep.violation("encoded_value_differs|Ipv4Header::set_options", format!("{} option bytes not encoded exactly", len), &b);
                    } else {
                        rep.count("accepted.Ipv4Header::set_options");
                    }
                }
                Err(e) => {
                    if ok_expected {
                        rep.violation("rejects_representable|Ipv4Header::set_options", format!("rejected {} option bytes", len), &[]);
                    } else if e.bad_len != len {
                        rep.violation("error_fields|Ipv4Header::set_options", format!("{} option bytes rejected with {:?}", len, e), &[]);
                    } else if h != base {
                        rep.violation("modified_on_error|Ipv4Header::set_options", format!("len {}", len), &[]);
                    } else {
                        rep.count("rejected.Ipv4Header::set_options");
                    }
                }
            }
            match Ipv4Options::try_from(&data[..]) {
                Ok(o) => {
                    if !ok_expected || o.as_slice() != &data[..] || o.len() != len {
                        rep.violation("accept|Ipv4Options::try_from", format!("{} bytes -> {:?}", len, o), &[]);
                    }
                }
                Err(e) => {
                    if ok_expected || e.bad_len != len {
                        rep.violation("reject|Ipv4Options::try_from", format!("{} bytes -> {:?}", len, e), &[]);
                    }
                }
            }
            // TCP: data offset 4 bit: at most 60 byte header = 40 option bytes (padded to 4)
            rep.evals += 1;
            let tbase = TcpHeader::new(1, 2, 3, 4);
            let mut t = tbase.clone();
            let tdata: Vec<u8> = vec![1u8; len]; // NOPs
            match t.set_options_raw(&tdata) {
                Ok(()) => {
                    let padded = (len + 3) / 4 * 4;
                    let b = t.to_bytes();
                    if len > 40 {
                        rep.violation("accepts_unrepresentable|TcpHeader::set_options_raw", format!("accepted {} option bytes", len), &[]);
                    } else if (b[12] >> 4) as usize * 4 != 20 + padded || b.len() != 20 + padded || b[20..20 + len] != tdata[..] || b[20 + len..].iter().any(|x| *x != 0) {
                        rep.violation("encoded_value_differs|TcpHeader::set_options_raw", format!("{} option bytes not encoded exactly", len), &b);
                    } else {
                        rep.count("accepted.TcpHeader::set_options_raw");
                    }
                }
                Err(TcpOptionWriteError::NotEnoughSpace(n)) => {
                    if len <= 40 {
                        rep.violation("rejects_representable|TcpHeader::set_options_raw", format!("rejected {} option bytes", len), &[]);
                    } else if n != len {
                        rep.violation("error_fields|TcpHeader::set_options_raw", format!("{} bytes rejected with required size {}", len, n), &[]);
                    } else if t != tbase {
                        rep.violation("modified_on_error|TcpHeader::set_options_raw", format!("len {}", len), &[]);
                    } else {
                        rep.count("rejected.TcpHeader::set_options_raw");
                    }
                }
            }
            rep.sig(&format!("options|{}|{}", len > 40, len % 4));
        }
    }

    /// TCP option *element* lists around the 40 octet limit, with selective acknowledgements whose
    /// optional blocks have holes (the encoder packs them: the size that counts is what is written)
    fn tcp_elements(&mut self, rep: &mut Report, rng: &mut Prng) {
        use crate::refmodel::tcpopts::ROpt;
        let target = rng.range(24, 70) as usize;
        let mut elems: Vec<TcpOptionElement> = Vec::new();
        let mut refs: Vec<ROpt> = Vec::new();
        let mut size = 0usize;
        while size < target && elems.len() < 48 {
            match rng.below(7) {
                0 => {
                    elems.push(TcpOptionElement::Noop);
                    refs.push(ROpt::Nop);
                    size += 1;
                }
                1 => {
                    let v = rng.u16_corner();
                    elems.push(TcpOptionElement::MaximumSegmentSize(v));
                    refs.push(ROpt::Mss(v));
                    size += 4;
                }
                2 => {
                    let v = rng.u8_corner();
                    elems.push(TcpOptionElement::WindowScale(v));
                    refs.push(ROpt::WScale(v));
                    size += 3;
                }
                3 => {
                    elems.push(TcpOptionElement::SelectiveAcknowledgementPermitted);
                    refs.push(ROpt::SackPerm);
                    size += 2;
                }
                4 => {
                    let (a, b) = (rng.u32_corner(), rng.u32_corner());
                    elems.push(TcpOptionElement::Timestamp(a, b));
                    refs.push(ROpt::Ts(a, b));
                    size += 10;
                }
                _ => {
                    let first = (rng.u32(), rng.u32());
                    let mut rest: [Option<(u32, u32)>; 3] = [None; 3];
                    let mask = rng.below(8);
                    let mut blocks = vec![first];
                    for (i, r) in rest.iter_mut().enumerate() {
                        if mask & (1 << i) != 0 {
                            let b = (rng.u32(), rng.u32());
                            *r = Some(b);
                            blocks.push(b);
                        }
                    }
                    if matches!(mask, 2 | 4 | 5 | 6) {
                        rep.count("tcp_elements.sack_with_hole");
                    }
                    size += 2 + 8 * blocks.len();
                    elems.push(TcpOptionElement::SelectiveAcknowledgement(first, rest));
                    refs.push(ROpt::Sack(blocks));
                }
            }
        }
        let fits = size <= 40;
        let enc = crate::refmodel::tcpopts::encode(&refs);
        if enc.len() != size {
            rep.selfcheck_fail(format!("reference encoder wrote {} octets for a list of size {}", enc.len(), size));
            return;
        }
        let padded = (size + 3) / 4 * 4;
        let judge = |rep: &mut Report, api: &str, got: Result<Vec<u8>, usize>, unchanged: bool| {
            rep.evals += 1;
            match got {
                Ok(area) => {
                    if !fits {
                        rep.violation(&format!("accepts_unrepresentable|{}", api), format!("{}: accepted a list of {} octets", api, size), &enc);
                    } else if area.len() != padded || area[..size] != enc[..] || area[size..].iter().any(|x| *x != 0) {
                        rep.violation(&format!("encoded_value_differs|{}", api), format!("{}: option area {} but the list encodes to {} (+ padding to {})", api, crate::report::hex(&area), crate::report::hex(&enc), padded), &enc);
                    } else {
                        rep.count(&format!("accepted.{}", api));
                    }
                }
                Err(n) => {
                    if fits {
                        rep.violation(&format!("rejects_representable|{}", api), format!("{}: rejected a list of {} octets (NotEnoughSpace({}))", api, size, n), &enc);
                    } else if n != size {
                        rep.violation(&format!("error_fields|{}", api), format!("{}: the list needs {} octets, the error says {}", api, size, n), &enc);
                    } else if !unchanged {
                        rep.violation(&format!("modified_on_error|{}", api), format!("{}: size {}", api, size), &enc);
                    } else {
                        rep.count(&format!("rejected.{}", api));
                    }
                }
            }
        };
        let r = shell::guarded(|| {
            let a = match TcpOptions::try_from_elements(&elems) {
                Ok(o) => Ok(o.as_slice().to_vec()),
                Err(TcpOptionWriteError::NotEnoughSpace(n)) => Err(n),
            };
            let base = {
                let mut h = TcpHeader::new(1, 2, 3, 4);
                h.set_options_raw(&[2, 4, 5, 0xb4]).unwrap();
                h
            };
            let mut h = base.clone();
            let b = match h.set_options(&elems) {
                Ok(()) => Ok(h.options.as_slice().to_vec()),
                Err(TcpOptionWriteError::NotEnoughSpace(n)) => Err(n),
            };
            let unchanged = h == base;
            let c = match PacketBuilder::ipv4([1, 2, 3, 4], [5, 6, 7, 8], 9).tcp(1, 2, 3, 4).options(&elems) {
                Ok(bld) => {
                    let mut out = Vec::new();
                    bld.write(&mut out, &[]).unwrap();
                    let hl = 4 * (out[32] >> 4) as usize;
                    Ok(out[40..20 + hl].to_vec())
                }
                Err(TcpOptionWriteError::NotEnoughSpace(n)) => Err(n),
            };
            (a, b, unchanged, c)
        });
        match r {
            Ok((a, b, unchanged, c)) => {
                judge(rep, "TcpOptions::try_from_elements", a, true);
                judge(rep, "TcpHeader::set_options", b, unchanged);
                judge(rep, "PacketBuilder::tcp().options", c, true);
            }
            Err(p) => {
                if p.location().contains("etherparse/src/") {
                    rep.violation(&format!("panic|tcp_elements|{}", p.location()), format!("a list of {} octets made the option encoder panic: {}", size, p.0), &enc);
                } else {
                    rep.selfcheck_fail(format!("harness panic in tcp_elements: {}", p.0));
                }
            }
        }
        rep.sig(&format!("tcp_elements|{}|{}", fits, size.min(48)));
    }

    fn arp(&mut self, rep: &mut Report, rng: &mut Prng) {
        // RFC 826: hlen / plen 8 bit
        let lens = [0usize, 1, 4, 6, 16, 253, 254, 255, 256, 257, 300, 65536];
        for _ in 0..24 {
            let hl = *rng.pick(&lens);
            let pl = *rng.pick(&lens);
            let (hl2, pl2) = match rng.below(6) {
                0 => (*rng.pick(&lens), pl),
                1 => (hl, *rng.pick(&lens)),
                _ => (hl, pl),
            };
            let sha: Vec<u8> = (0..hl).map(|i| i as u8).collect();
            let spa: Vec<u8> = (0..pl).map(|i| (i * 3) as u8).collect();
            let tha: Vec<u8> = (0..hl2).map(|i| (i * 5) as u8).collect();
            let tpa: Vec<u8> = (0..pl2).map(|i| (i * 7) as u8).collect();
            let ok_expected = hl == hl2 && pl == pl2 && hl <= 255 && pl <= 255;
            rep.evals += 1;
            match ArpPacket::new(ArpHardwareId(1), EtherType(0x0800), ArpOperation(1), &sha, &spa, &tha, &tpa) {
                Ok(p) => {
                    let b = p.to_bytes();
                    if !ok_expected {
                        rep.violation("accepts_unrepresentable|ArpPacket::new", format!("accepted lengths {}/{} {}/{}", hl, hl2, pl, pl2), &[]);
                    } else if b.len() != 8 + 2 * hl + 2 * pl
                        || b[4] as usize != hl
                        || b[5] as usize != pl
                        || b[8..8 + hl] != sha[..]
                        || b[8 + hl..8 + hl + pl] != spa[..]
                        || b[8 + hl + pl..8 + 2 * hl + pl] != tha[..]
                        || b[8 + 2 * hl + pl..] != tpa[..]
                    {
                        rep.violation("encoded_value_differs|ArpPacket::new", format!("lengths {}/{} not encoded exactly", hl, pl), &b);
                    } else {
                        rep.count("accepted.ArpPacket::new");
                    }
                }
                Err(e) => {
                    if ok_expected {
                        rep.violation("rejects_representable|ArpPacket::new", format!("rejected lengths {}/{}: {:?}", hl, pl, e), &[]);
                    } else {
                        use err::arp::*;
                        let truthful = match &e {
                            ArpNewError::HwAddr(ArpHwAddrError::LenNonMatching(a, b)) => *a == hl && *b == hl2 && hl != hl2,
                            ArpNewError::ProtoAddr(ArpProtoAddrError::LenNonMatching(a, b)) => *a == pl && *b == pl2 && pl != pl2,
                            ArpNewError::HwAddr(ArpHwAddrError::LenTooBig(a)) => *a == hl && hl > 255,
                            ArpNewError::ProtoAddr(ArpProtoAddrError::LenTooBig(a)) => *a == pl && pl > 255,
                        };
                        if !truthful {
                            rep.violation("error_fields|ArpPacket::new", format!("lengths {}/{} {}/{} rejected with {:?}", hl, hl2, pl, pl2, e), &[]);
                        } else {
                            rep.count("rejected.ArpPacket::new");
                        }
                    }
                }
            }
            // setters on an existing packet
            let base = ArpPacket::new(ArpHardwareId(1), EtherType(0x0800), ArpOperation(1), &[1; 6], &[2; 4], &[3; 6], &[4; 4]).unwrap();
            let mut p = base.clone();
            rep.evals += 2;
            let r = p.set_hw_addrs(&sha, &tha);
            let ok_h = hl == hl2 && hl <= 255;
            if r.is_ok() != ok_h {
                rep.violation("accept_vs_limit|ArpPacket::set_hw_addrs", format!("lengths {}/{} -> {:?}", hl, hl2, r), &[]);
            } else if r.is_err() && p != base {
                rep.violation("modified_on_error|ArpPacket::set_hw_addrs", format!("lengths {}/{}", hl, hl2), &[]);
            } else if r.is_ok() && (p.sender_hw_addr() != &sha[..] || p.target_hw_addr() != &tha[..] || p.hw_addr_size() as usize != hl) {
                rep.violation("encoded_value_differs|ArpPacket::set_hw_addrs", format!("lengths {}", hl), &[]);
            } else {
                rep.count("arp.set_hw_addrs");
            }
            let mut p = base.clone();
            let r = p.set_protocol_addrs(&spa, &tpa);
            let ok_p = pl == pl2 && pl <= 255;
            if r.is_ok() != ok_p {
                rep.violation("accept_vs_limit|ArpPacket::set_protocol_addrs", format!("lengths {}/{} -> {:?}", pl, pl2, r), &[]);
            } else if r.is_err() && p != base {
                rep.violation("modified_on_error|ArpPacket::set_protocol_addrs", format!("lengths {}/{}", pl, pl2), &[]);
            } else if r.is_ok() && (p.sender_protocol_addr() != &spa[..] || p.target_protocol_addr() != &tpa[..] || p.protocol_addr_size() as usize != pl) {
                rep.violation("encoded_value_differs|ArpPacket::set_protocol_addrs", format!("lengths {}", pl), &[]);
            } else {
                rep.count("arp.set_protocol_addrs");
            }
            rep.sig(&format!("arp|{}|{}|{}", hl > 255, pl > 255, hl == hl2 && pl == pl2));
        }
    }
}

impl C14 {
    /// PacketBuilder payloads: IPv4 total length / IPv6 payload length / UDP length are 16 bit
    fn builder(&mut self, rep: &mut Report, rng: &mut Prng) {
        use crate::observe::builder::{self as b, BLink, BNet, BResult, BTr, BVlan, Out};
        let mut c = b::rand_conf(rng);
        if matches!(c.net, BNet::Arp(_)) {
            return;
        }
        // ICMPv6 in IPv4 is rejected for another reason
        let v4 = matches!(c.net, BNet::Ipv4 { .. } | BNet::Ip(etherparse::IpHeaders::Ipv4(..)));
        if v4 && matches!(c.tr, BTr::Icmp6(_) | BTr::Icmp6Raw { .. } | BTr::Icmp6EchoRequest { .. } | BTr::Icmp6EchoReply { .. }) {
            c.tr = BTr::Udp { sp: 1, dp: 2 };
        }
        if rng.bool() {
            c.vlan = BVlan::None;
        }
        let size0 = match b::run(&c, Out::Size(0), &[]) {
            BResult::Size(n) => n,
            _ => return,
        };
        let ll = (match c.link {
            BLink::None => 0,
            BLink::Eth { .. } => 14,
            BLink::Sll { .. } => 16,
        }) + match c.vlan {
            BVlan::None => 0,
            BVlan::Single(_) | BVlan::SingleHeader { .. } => 4,
            _ => 8,
        };
        // headers behind the link layer that count into the 16 bit length field
        let counted = if v4 { size0 - ll } else { size0 - ll - 40 };
        let limit = 65535 - counted;
        let api = match (&c.tr, v4) {
            (BTr::Udp { .. }, true) => "PacketBuilder(udp/ipv4)",
            (BTr::Udp { .. }, false) => "PacketBuilder(udp/ipv6)",
            (BTr::Tcp(_) | BTr::TcpHeader(_), true) => "PacketBuilder(tcp/ipv4)",
            (BTr::Tcp(_) | BTr::TcpHeader(_), false) => "PacketBuilder(tcp/ipv6)",
            (BTr::Raw(_), true) => "PacketBuilder(raw/ipv4)",
            (BTr::Raw(_), false) => "PacketBuilder(raw/ipv6)",
            (_, true) => "PacketBuilder(icmp/ipv4)",
            (_, false) => "PacketBuilder(icmp/ipv6)",
        };
        for len in [limit.saturating_sub(2), limit.saturating_sub(1), limit, limit + 1, limit + 2, limit + 8, 65535, 65536, 65537, 70_000] {
            let payload = self.zeros(len);
            let mut out: Vec<u8> = Vec::new();
            rep.evals += 1;
            let r = match shell::guarded(|| b::run(&c, Out::Vec(&mut out), payload)) {
                Ok(r) => r,
                Err(p) => {
                    rep.violation(&format!("panic|{}|{}", api, p.location()), format!("{:?} payload {}: {}", c, len, p.0), &[]);
                    return;
                }
            };
            match (&r, len <= limit) {
                (BResult::Ok, true) => {
                    // the encoded length fields decode to the real sizes
                    let ip = &out[ll..];
                    let field = if v4 { ((ip[2] as usize) << 8 | ip[3] as usize) as usize } else { 40 + ((ip[4] as usize) << 8 | ip[5] as usize) };
                    let mut ok = field == ip.len();
                    if let BTr::Udp { .. } = c.tr {
                        let u = &out[out.len() - len - 8..];
                        ok &= ((u[4] as usize) << 8 | u[5] as usize) == 8 + len;
                    }
                    if !ok {
                        rep.violation(&format!("encoded_value_differs|{}", api), format!("{:?}: payload {} accepted but a length field does not decode to the real size", c, len), &out[..out.len().min(80)]);
                        return;
                    }
                    rep.count(&format!("accepted.{}", api));
                }
                (BResult::Err(class, _), false) if class == "PayloadLen" => rep.count(&format!("rejected.{}", api)),
                (BResult::ConfigErr(_), _) => return,
                (other, fits) => {
                    rep.violation(
                        &format!("{}|{}", if fits { "rejects_representable" } else { "accepts_unrepresentable" }, api),
                        format!("{:?}: payload of {} bytes (limit {}): {:?}", c, len, limit, other.class()),
                        &out[..out.len().min(80)],
                    );
                    return;
                }
            }
            rep.sig(&format!("{}|{}", api, (len > limit) as u8 + 2 * (len == limit) as u8));
        }
    }
}

impl Monitor for C14 {
    fn engines(&self, tier: Tier) -> Vec<(&'static str, u64)> {
        vec![
            ("ipv4", tier.pick(64, 640)),
            ("ipv6", tier.pick(32, 320)),
            ("udp", tier.pick(16, 64)),
            ("pseudo", tier.pick(32, 8)),
            ("macsec", 16),
            ("auth_ext", tier.pick(32, 128)),
            ("options", 16),
            ("arp", tier.pick(640, 6400)),
            ("builder", tier.pick(3_000, 30_000)),
            ("tcp_elements", tier.pick(200_000, 20_000_000)),
        ]
    }

    fn run_case(&mut self, engine: &str, _idx: u64, rng: &mut Prng, rep: &mut Report) {
        self.thorough = std::env::var("EPVERIF_TIER").map(|v| v == "thorough").unwrap_or(false);
        shell::progress_entry(1400);
        let r = shell::guarded(|| match engine {
            "ipv4" => self.ipv4(rep, rng),
            "ipv6" => self.ipv6(rep, rng),
            "udp" => self.udp(rep),
            "pseudo" => self.pseudo(rep, rng),
            "macsec" => self.macsec(rep),
            "auth_ext" => self.auth_and_ext(rep, rng),
            "options" => self.options(rep),
            "arp" => self.arp(rep, rng),
            "tcp_elements" => self.tcp_elements(rep, rng),
            "builder" => self.builder(rep, rng),
            _ => {}
        });
        if let Err(p) = r {
            if !p.location().contains("etherparse/src/") {
                rep.selfcheck_fail(format!("harness panic in engine {}: {}", engine, p.0));
                return;
            }
            rep.violation(
                &format!("panic|{}|{}", engine, p.location()),
                format!("a length-taking API panicked instead of returning an error: {}", p.0),
                &[],
            );
        }
        if rep.want_sample() {
            rep.sample(format!("{{\"engine\":{},\"note\":\"probes around every field limit, see counters accepted.* / rejected.*\"}}", jstr(engine)));
        }
    }
}
