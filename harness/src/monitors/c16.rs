//! C16 — I/O faults and short buffers surface as errors without partial garbage.
//!
//! Fault enumeration: for each sampled header / packet value
//!   * a writer that fails at byte k, for EVERY k in 0..=n (two modes: accept a partial chunk
//!     then fail / reject the whole chunk) — result must be that I/O error for k < n and Ok for
//!     k >= n, the bytes received are a prefix of the complete encoding;
//!   * output slices of EVERY length 0..=n+1, ending at a PROT_NONE guard page with canaries in
//!     front — space errors state the really required length, nothing is written outside;
//!   * a reader that fails at byte k for EVERY k — that error for k < bytes needed, never Ok;
//!   * a length limited reader over a counting reader for EVERY limit 0..=n+2 — never pulls
//!     more than the limit, reports a length error exactly when the limit is too small.

use super::{Monitor, Tier};
use crate::arena::Arena;
use crate::observe::builder::{self, BResult, Out};
use crate::observe::single::{WOut, HEADERS, WRITERS};
use crate::neutral::NErr;
use crate::prng::Prng;
use crate::report::{hex, jstr, Report};
use crate::shell;
use std::io::{Cursor, Read, Seek, SeekFrom, Write};

pub struct C16 {
    arena: Option<Arena>,
}

impl C16 {
    pub fn new(flavour: &str) -> C16 {
        let heap = matches!(flavour, "asan" | "vg" | "miri") || cfg!(miri);
        C16 {
            arena: if heap { None } else { Some(Arena::new(70_000)) },
        }
    }
}

const INJECTED: &str = "injected fault";

/// fails once `budget` bytes have been accepted
struct FailingWriter {
    got: Vec<u8>,
    budget: usize,
    partial: bool,
    failed: bool,
    writes_after_failure: usize,
    /// at most this many octets per `write` call (0 = everything offered): a sink may legally
    /// take less than offered
    chunk: usize,
}

impl Write for FailingWriter {
    fn write(&mut self, buf: &[u8]) -> std::io::Result<usize> {
        if self.failed {
            self.writes_after_failure += 1;
        }
        let left = self.budget - self.got.len();
        if buf.is_empty() {
            return Ok(0);
        }
        if self.chunk != 0 && buf.len() > self.chunk && left >= self.chunk {
            self.got.extend_from_slice(&buf[..self.chunk]);
            return Ok(self.chunk);
        }
        if buf.len() <= left {
            self.got.extend_from_slice(buf);
            return Ok(buf.len());
        }
        if self.partial && left > 0 {
            self.got.extend_from_slice(&buf[..left]);
            return Ok(left);
        }
        self.failed = true;
        Err(std::io::Error::new(std::io::ErrorKind::ConnectionReset, INJECTED))
    }
    fn flush(&mut self) -> std::io::Result<()> {
        Ok(())
    }
}

/// fails once `budget` bytes have been handed out
struct FailingReader<'a> {
    inner: Cursor<&'a [u8]>,
    budget: usize,
    pulled: usize,
    /// at most this many octets per `read` call (0 = as many as asked for): a source may legally
    /// deliver less than requested
    chunk: usize,
}

impl<'a> Read for FailingReader<'a> {
    fn read(&mut self, buf: &mut [u8]) -> std::io::Result<usize> {
        if buf.is_empty() {
            return Ok(0);
        }
        let left = self.budget.saturating_sub(self.pulled);
        if left == 0 {
            // a genuine end of file stays an end of file
            if self.inner.position() as usize >= self.inner.get_ref().len() {
                return Ok(0);
            }
            return Err(std::io::Error::new(std::io::ErrorKind::ConnectionReset, INJECTED));
        }
        let mut n = buf.len().min(left);
        if self.chunk != 0 {
            n = n.min(self.chunk);
        }
        let r = self.inner.read(&mut buf[..n])?;
        self.pulled += r;
        Ok(r)
    }
}
impl<'a> Seek for FailingReader<'a> {
    fn seek(&mut self, pos: SeekFrom) -> std::io::Result<u64> {
        self.inner.seek(pos)
    }
}

impl C16 {
    fn writers(&mut self, rep: &mut Report, rng: &mut Prng) {
        let ti = rng.usize_below(WRITERS.len());
        let t = &WRITERS[ti];
        // find bytes that decode (hostile generators also produce undecodable ones)
        let mut input = Vec::new();
        let mut complete: Option<Vec<u8>> = None;
        for _ in 0..8 {
            input = (t.gen)(rng);
            let mut v: Vec<u8> = Vec::new();
            match shell::guarded(|| (t.write)(&input, &mut v)) {
                Ok(Some(WOut::Ok)) => {
                    complete = Some(v);
                    break;
                }
                Ok(Some(WOut::Other(_))) => {
                    // a content error (inconsistent chain): not an I/O subject
                    rep.count("writers.content_error_values");
                    continue;
                }
                Ok(Some(WOut::Io(e))) => {
                    rep.violation(
                        &format!("io_error_without_fault|{}", t.name),
                        format!("{}: writing into a Vec failed with {}", t.name, e),
                        &input,
                    );
                    return;
                }
                Ok(None) => continue,
                Err(p) => {
                    rep.violation(&format!("panic|{}::write|{}", t.name, p.location()), p.0, &input);
                    return;
                }
            }
        }
        let complete = match complete {
            Some(c) => c,
            None => return,
        };
        let n = complete.len();
        rep.count(&format!("writers.values.{}", t.name));
        for partial in [true, false] {
            for k in 0..=n + 1 {
                let mut w = FailingWriter {
                    got: Vec::new(),
                    budget: k,
                    partial,
                    failed: false,
                    writes_after_failure: 0,
                    chunk: if (k + n) % 3 == 0 { 1 + k % 3 } else { 0 },
                };
                if w.chunk != 0 {
                    rep.count("writers.short_write_sinks");
                }
                rep.evals += 1;
                shell::progress_entry(1600 + ti as u64);
                let r = match shell::guarded(|| (t.write)(&input, &mut w)) {
                    Ok(Some(r)) => r,
                    Ok(None) => return,
                    Err(p) => {
                        rep.violation(
                            &format!("panic|{}::write|{}", t.name, p.location()),
                            format!("{}: panicked with a writer failing at byte {}: {}", t.name, k, p.0),
                            &input,
                        );
                        return;
                    }
                };
                let ctx = || format!("{} (encoding {} bytes) writer failing at byte {} ({})", t.name, n, k, if partial { "partial" } else { "reject" });
                if !complete.starts_with(&w.got) {
                    rep.violation(
                        &format!("not_a_prefix|{}", t.name),
                        format!("{}: received {} which is not a prefix of {}", ctx(), hex(&w.got), hex(&complete)),
                        &input,
                    );
                    return;
                }
                match (&r, k >= n) {
                    (WOut::Ok, true) => {
                        if w.got != complete {
                            rep.violation(&format!("ok_but_incomplete|{}", t.name), format!("{}: Ok but only {} bytes arrived", ctx(), w.got.len()), &input);
                            return;
                        }
                        rep.count("writers.ok_at_full_budget");
                    }
                    (WOut::Io(e), false) => {
                        if !e.contains(INJECTED) {
                            rep.violation(&format!("other_io_error|{}", t.name), format!("{}: returned {} instead of the injected error", ctx(), e), &input);
                            return;
                        }
                        rep.count("writers.fault_surfaced");
                        if t.multi_part {
                            rep.count(&format!("writers.multi_part_fault.{}", t.name));
                        }
                    }
                    (WOut::Ok, false) => {
                        rep.violation(
                            &format!("success_despite_fault|{}", t.name),
                            format!("{}: reported success although only {} of {} bytes could be written", ctx(), w.got.len(), n),
                            &input,
                        );
                        return;
                    }
                    (other, _) => {
                        rep.violation(&format!("unexpected_result|{}", t.name), format!("{}: {:?}", ctx(), other), &input);
                        return;
                    }
                }
            }
        }
        rep.sig(&format!("w|{}|{}", t.name, n));
        // output slices of every length
        if let Some(sw) = t.write_to_slice {
            for len in 0..=n + 1 {
                rep.evals += 1;
                let res = self.with_out_slice(len, |out| shell::guarded(|| sw(&input, out)));
                let (r, written, canary_ok) = match res {
                    (Ok(Some(r)), w, c) => (r, w, c),
                    (Ok(None), _, _) => return,
                    (Err(p), _, _) => {
                        rep.violation(&format!("panic|{}::write_to_slice|{}", t.name, p.location()), p.0, &input);
                        return;
                    }
                };
                if !canary_ok {
                    rep.violation(&format!("wrote_outside_slice|{}", t.name), format!("{}: canary in front of a {} byte output slice damaged", t.name, len), &input);
                    return;
                }
                match r {
                    Ok(rest) => {
                        if len < n || rest != len - n || written[..n] != complete[..] {
                            rep.violation(&format!("slice_ok_wrong|{}", t.name), format!("{}: slice of {} bytes: Ok(rest {}) for a {} byte header", t.name, len, rest, n), &input);
                            return;
                        }
                        rep.count("slices.ok");
                    }
                    Err((required, l, restated)) => {
                        if let Some(other) = restated {
                            rep.violation(
                                &format!("space_error_restated|{}", t.name),
                                format!("{}: slice of {} bytes for a {} byte header: the error states required_len={} len={}, but {}", t.name, len, n, required, l, other),
                                &input,
                            );
                            return;
                        }
                        if len >= n || required != n || l != len {
                            rep.violation(
                                &format!("space_error_fields|{}", t.name),
                                format!("{}: slice of {} bytes for a {} byte header: error required_len={} len={}", t.name, len, n, required, l),
                                &input,
                            );
                            return;
                        }
                        rep.count("slices.space_error");
                    }
                }
            }
        }
    }

    /// runs `f` on an output slice of `len` bytes that ends at a guard page (or an exact heap
    /// allocation); returns (result, copy of the slice afterwards, canary intact)
    fn with_out_slice<R>(&mut self, len: usize, f: impl FnOnce(&mut [u8]) -> R) -> (R, Vec<u8>, bool) {
        match &mut self.arena {
            #[cfg(not(miri))]
            Some(a) => {
                let (out, canary) = a.out_end(len, 0xC7);
                let r = f(out);
                let copy = out.to_vec();
                let ok = unsafe { std::slice::from_raw_parts(canary, 32) }.iter().all(|b| *b == 0xC7);
                (r, copy, ok)
            }
            _ => {
                let mut v = vec![0xEEu8; len];
                let r = f(&mut v[..]);
                (r, v, true)
            }
        }
    }

    fn readers(&mut self, rep: &mut Report, rng: &mut Prng) {
        let ti = rng.usize_below(HEADERS.len());
        let t = &HEADERS[ti];
        let bytes = (t.gen)(rng);
        // one case in three: a source that hands out 1-3 octets per call
        let chunk = if rng.chance(1, 3) { rng.range(1, 3) as usize } else { 0 };
        if chunk != 0 {
            rep.count("readers.chunked_source");
        }
        // unfaulted reference run (from a source that always fills the buffer: what a chunked
        // source delivers in the end is the same data, so the result has to be the same)
        let base = shell::guarded(|| {
            let mut r = FailingReader {
                inner: Cursor::new(&bytes[..]),
                budget: usize::MAX,
                pulled: 0,
                chunk: 0,
            };
            let res = (t.read)(&mut r, &bytes);
            (res, r.pulled)
        });
        let (r0, pulled0) = match base {
            Ok(x) => x,
            Err(p) => {
                rep.violation(&format!("panic|{}::read|{}", t.name, p.location()), p.0, &bytes);
                return;
            }
        };
        rep.count(&format!("readers.values.{}", t.name));
        for k in 0..=pulled0 + 1 {
            rep.evals += 1;
            shell::progress_entry(1650 + ti as u64);
            let res = shell::guarded(|| {
                let mut r = FailingReader {
                    inner: Cursor::new(&bytes[..]),
                    budget: k,
                    pulled: 0,
                    chunk,
                };
                let res = (t.read)(&mut r, &bytes);
                (res, r.pulled)
            });
            let (r, pulled) = match res {
                Ok(x) => x,
                Err(p) => {
                    rep.violation(
                        &format!("panic|{}::read|{}", t.name, p.location()),
                        format!("{}: panicked with a reader failing at byte {}: {}", t.name, k, p.0),
                        &bytes,
                    );
                    return;
                }
            };
            if pulled > k {
                rep.selfcheck_fail(format!("failing reader handed out {} > {}", pulled, k));
                return;
            }
            if k >= pulled0 {
                let same = match (&r, &r0) {
                    (Ok(a), Ok(b)) => a.value == b.value,
                    (Err(a), Err(b)) => a == b,
                    _ => false,
                };
                if !same {
                    rep.violation(
                        &format!("reader_result_depends_on_spare_budget|{}", t.name),
                        format!("{}: reader failing at byte {} (needs {}): {:?} vs unfaulted {:?}", t.name, k, pulled0, r.as_ref().map(|d| &d.value), r0.as_ref().map(|d| &d.value)),
                        &bytes,
                    );
                    return;
                }
                rep.count("readers.unaffected");
            } else {
                match &r {
                    Err(NErr::Io(kind)) if kind == "ConnectionReset" => rep.count("readers.fault_surfaced"),
                    other => {
                        rep.violation(
                            &format!("reader_fault_not_surfaced|{}|{}", t.name, if other.is_ok() { "ok" } else { "other_error" }),
                            format!(
                                "{}: the reader failed at byte {} of the {} bytes the decoder needs, but the result is {:?}",
                                t.name,
                                k,
                                pulled0,
                                other.as_ref().map(|d| &d.value)
                            ),
                            &bytes,
                        );
                        return;
                    }
                }
            }
        }
        rep.sig(&format!("r|{}|{}|{}", t.name, pulled0, r0.is_ok()));
    }

    /// length limited readers never pull more than their limit
    fn limited(&mut self, rep: &mut Report, rng: &mut Prng) {
        use etherparse::err::Layer;
        use etherparse::io::LimitedReader;
        use etherparse::*;
        let which = rng.below(5);
        // input = header bytes followed by plenty of data, so that only the limit stops a read
        let (first, mut bytes): (u8, Vec<u8>) = match which {
            0 => (51, crate::gen::ah_bytes(rng, 6, crate::gen::Lie::None).0),
            1 => {
                let units = rng.below(5) as usize;
                let mut b = vec![17u8, units as u8];
                b.extend_from_slice(&rng.bytes(6 + 8 * units));
                (60, b)
            }
            2 => (44, rng.bytes(8)),
            3 => {
                let nx = 6;
                (51, crate::gen::ah_bytes(rng, nx, crate::gen::Lie::None).0)
            }
            _ => {
                let full = crate::gen::gen_ipv6(rng, crate::gen::Lie::None).bytes;
                (full[6], full[40..].to_vec())
            }
        };
        let trailing = rng.bytes(64);
        bytes.extend_from_slice(&trailing);
        let chunk = if rng.chance(1, 3) { rng.range(1, 3) as usize } else { 0 };
        let name = ["IpAuthHeader::read_limited", "Ipv6RawExtHeader::read_limited", "Ipv6FragmentHeader::read_limited", "Ipv4Extensions::read_limited", "Ipv6Extensions::read_limited"][which as usize];
        let run = |limit: usize| -> Result<(Result<String, (String, usize, usize)>, usize), crate::shell::Panicked> {
            shell::guarded(|| {
                let inner = FailingReader {
                    inner: Cursor::new(&bytes[..]),
                    budget: usize::MAX,
                    pulled: 0,
                    chunk,
                };
                let mut lr = LimitedReader::new(inner, limit, LenSource::Ipv6HeaderPayloadLen, 40, Layer::Ipv6ExtHeader);
                let map_len = |l: &err::LenError| (format!("Len:{:?}", l.layer), l.required_len, l.len);
                let r: Result<String, (String, usize, usize)> = match which {
                    0 => IpAuthHeader::read_limited(&mut lr).map(|h| format!("{:?}", h)).map_err(|e| match &e {
                        err::ip_auth::HeaderLimitedReadError::Len(l) => map_len(l),
                        o => (format!("{:?}", o), 0, 0),
                    }),
                    1 => Ipv6RawExtHeader::read_limited(&mut lr).map(|h| format!("{:?}", h)).map_err(|e| match &e {
                        err::io::LimitedReadError::Len(l) => map_len(l),
                        o => (format!("{:?}", o), 0, 0),
                    }),
                    2 => Ipv6FragmentHeader::read_limited(&mut lr).map(|h| format!("{:?}", h)).map_err(|e| match &e {
                        err::io::LimitedReadError::Len(l) => map_len(l),
                        o => (format!("{:?}", o), 0, 0),
                    }),
                    3 => Ipv4Extensions::read_limited(&mut lr, IpNumber(first)).map(|h| format!("{:?}", h)).map_err(|e| match &e {
                        err::ip_auth::HeaderLimitedReadError::Len(l) => map_len(l),
                        o => (format!("{:?}", o), 0, 0),
                    }),
                    _ => Ipv6Extensions::read_limited(&mut lr, IpNumber(first)).map(|h| format!("{:?}", h)).map_err(|e| match &e {
                        err::ipv6_exts::HeaderLimitedReadError::Len(l) => map_len(l),
                        o => (format!("{:?}", o), 0, 0),
                    }),
                };
                let pulled = lr.take_reader().pulled;
                (r, pulled)
            })
        };
        let (r0, needed) = match run(usize::MAX / 2) {
            Ok(x) => x,
            Err(p) => {
                rep.violation(&format!("panic|{}|{}", name, p.location()), p.0, &bytes);
                return;
            }
        };
        if r0.is_err() {
            // content error (e.g. struct-mode chain peculiarities): nothing to enumerate
            rep.count("limited.unlimited_run_failed");
            return;
        }
        for limit in 0..=needed + 2 {
            rep.evals += 1;
            let (r, pulled) = match run(limit) {
                Ok(x) => x,
                Err(p) => {
                    rep.violation(&format!("panic|{}|{}", name, p.location()), format!("limit {}: {}", limit, p.0), &bytes);
                    return;
                }
            };
            if pulled > limit {
                rep.violation(
                    &format!("limited_reader_overpull|{}", name),
                    format!("{}: limit {} but {} bytes were pulled from the underlying reader", name, limit, pulled),
                    &bytes,
                );
                return;
            }
            match (&r, limit >= needed) {
                (Ok(v), true) => {
                    if Ok(v.clone()) != r0 {
                        rep.violation(&format!("limited_result_differs|{}", name), format!("{}: limit {} gives another value", name, limit), &bytes);
                        return;
                    }
                    rep.count("limited.ok");
                }
                (Err((class, required, len)), false) => {
                    if !class.starts_with("Len:") || required <= len || *len > limit {
                        rep.violation(
                            &format!("limited_error_fields|{}", name),
                            format!("{}: limit {} (needs {}): error {} required_len={} len={}", name, limit, needed, class, required, len),
                            &bytes,
                        );
                        return;
                    }
                    rep.count("limited.len_error");
                }
                (other, _) => {
                    rep.violation(
                        &format!("limited_verdict|{}|{}", name, other.is_ok()),
                        format!("{}: limit {} needs {}: {:?}", name, limit, needed, other),
                        &bytes,
                    );
                    return;
                }
            }
        }
        rep.sig(&format!("l|{}|{}", name, needed));
        // the reader itself over a history of calls (the decoders above stop at the first refusal):
        // reads that fit, reads that are refused, new layers - against a budget model. At no point
        // has more than the limit been pulled, a refused read pulls nothing and changes nothing.
        {
            let limit = rng.range(0, 40) as usize;
            let base = rng.range(0, 50) as usize;
            let r = shell::guarded(|| -> Result<(usize, usize), String> {
                let inner = FailingReader {
                    inner: Cursor::new(&bytes[..]),
                    budget: usize::MAX,
                    pulled: 0,
                    chunk,
                };
                let mut lr = LimitedReader::new(inner, limit, LenSource::Ipv4HeaderTotalLen, base, Layer::IpAuthHeader);
                let mut left = limit; // octets the limit still allows
                let mut in_layer = 0usize; // octets read in the current layer
                let mut layer_off = base;
                let mut pos = 0usize; // position in `bytes`
                let mut steps = 0usize;
                let mut refusals = 0usize;
                for _ in 0..12 {
                    steps += 1;
                    if rng.chance(1, 5) {
                        lr.start_layer(Layer::Ipv6ExtHeader);
                        layer_off += in_layer;
                        in_layer = 0;
                    }
                    let k = match rng.below(4) {
                        0 => left,
                        1 => left + 1 + rng.below(3) as usize,
                        _ => rng.range(0, 16) as usize,
                    }
                    .min(bytes.len() - pos);
                    let mut buf = vec![0u8; k];
                    let res = lr.read_exact(&mut buf);
                    match res {
                        Ok(()) => {
                            if k > left {
                                return Err(format!("step {}: a read of {} octets was accepted with {} of the limit {} left", steps, k, left, limit));
                            }
                            if buf[..] != bytes[pos..pos + k] {
                                return Err(format!("step {}: a read of {} octets returned other octets than the source holds at {}", steps, k, pos));
                            }
                            left -= k;
                            pos += k;
                            in_layer += k;
                        }
                        Err(err::io::LimitedReadError::Len(l)) => {
                            refusals += 1;
                            if k <= left {
                                return Err(format!("step {}: a read of {} octets was refused with {} of the limit left", steps, k, left));
                            }
                            if l.required_len != in_layer + k || l.len != in_layer + left || l.layer_start_offset != layer_off {
                                return Err(format!("step {}: refusal {:?}, expected required_len {} len {} offset {}", steps, l, in_layer + k, in_layer + left, layer_off));
                            }
                        }
                        Err(e) => return Err(format!("step {}: {:?}", steps, e)),
                    }
                    if lr.read_len() != in_layer || lr.layer_offset() != layer_off || lr.max_len() != in_layer + left {
                        return Err(format!("step {}: reader state read_len {} layer_offset {} max_len {}, expected {} {} {}", steps, lr.read_len(), lr.layer_offset(), lr.max_len(), in_layer, layer_off, in_layer + left));
                    }
                }
                let pulled = lr.take_reader().pulled;
                if pulled != pos || pulled > limit {
                    return Err(format!("{} octets pulled from the source, {} handed out, limit {}", pulled, pos, limit));
                }
                Ok((steps, refusals))
            });
            match r {
                Err(p) => rep.violation(&format!("panic|LimitedReader|{}", p.location()), p.0, &bytes),
                Ok(Err(e)) => rep.violation("limited_reader_history", format!("LimitedReader(limit {}, offset {}): {}", limit, base, e), &bytes),
                Ok(Ok((steps, refusals))) => {
                    rep.add("limited.history_steps", steps as u64);
                    rep.add("limited.history_refusals", refusals as u64);
                }
            }
        }
    }

    fn builder(&mut self, rep: &mut Report, rng: &mut Prng) {
        let c = builder::rand_conf(rng);
        let pl = match rng.below(4) {
            0 => 0,
            1 => rng.range(0, 9) as usize,
            _ => rng.range(0, 70) as usize,
        };
        let payload = rng.bytes(pl);
        let mut complete: Vec<u8> = Vec::new();
        let base = shell::guarded(|| builder::run(&c, Out::Vec(&mut complete), &payload));
        match base {
            Ok(BResult::Ok) => {}
            Ok(_) => {
                rep.count("builder.unencodable_configs");
                return;
            }
            Err(p) => {
                rep.violation(&format!("panic|PacketBuilder::write_to_vec|{}", p.location()), format!("{:?}: {}", c, p.0), &[]);
                return;
            }
        }
        let n = complete.len();
        rep.count("builder.configs");
        let ctx = format!("{:?} payload {} bytes", c, pl);
        for partial in [true, false] {
            for k in 0..=n + 1 {
                let mut w = FailingWriter {
                    got: Vec::new(),
                    budget: k,
                    partial,
                    failed: false,
                    writes_after_failure: 0,
                    chunk: if (k + n) % 3 == 0 { 1 + k % 3 } else { 0 },
                };
                if w.chunk != 0 {
                    rep.count("writers.short_write_sinks");
                }
                rep.evals += 1;
                shell::progress_entry(1690);
                let r = match shell::guarded(|| builder::run(&c, Out::Writer(&mut w), &payload)) {
                    Ok(r) => r,
                    Err(p) => {
                        rep.violation(
                            &format!("panic|PacketBuilder::write|{}", p.location()),
                            format!("{}: panicked with a writer failing at byte {}: {}", ctx, k, p.0),
                            &complete,
                        );
                        return;
                    }
                };
                if !complete.starts_with(&w.got) {
                    rep.violation("not_a_prefix|PacketBuilder::write", format!("{}: writer failing at {}: received bytes are not a prefix of the packet", ctx, k), &complete);
                    return;
                }
                match (&r, k >= n) {
                    (BResult::Ok, true) if w.got == complete => rep.count("builder.ok_at_full_budget"),
                    (BResult::Err(class, text), false) if class == "Io" && text.contains(INJECTED) => rep.count("builder.fault_surfaced"),
                    (other, _) => {
                        rep.violation(
                            &format!("builder_write_fault|{}", other.class()),
                            format!("{}: writer failing at byte {} of {}: {:?} ({} bytes arrived)", ctx, k, n, other, w.got.len()),
                            &complete,
                        );
                        return;
                    }
                }
            }
        }
        for len in 0..=n + 1 {
            rep.evals += 1;
            let (r, written, canary_ok) = self.with_out_slice(len, |out| shell::guarded(|| builder::run(&c, Out::Slice(out), &payload)));
            let r = match r {
                Ok(r) => r,
                Err(p) => {
                    rep.violation(&format!("panic|PacketBuilder::write_to_slice|{}", p.location()), format!("{}: slice of {}: {}", ctx, len, p.0), &complete);
                    return;
                }
            };
            if !canary_ok {
                rep.violation("wrote_outside_slice|PacketBuilder::write_to_slice", format!("{}: canary damaged for a {} byte slice", ctx, len), &complete);
                return;
            }
            match (&r, len >= n) {
                (BResult::OkSlice(w), true) if *w == n && written[..n] == complete[..] => rep.count("builder.slices.ok"),
                (BResult::Err(class, text), false) if class == "Space" && text == &format!("Space({})", n) => rep.count("builder.slices.space_error"),
                (other, _) => {
                    rep.violation(
                        &format!("builder_slice|{}", other.class()),
                        format!("{}: output slice of {} bytes for a {} byte packet: {:?}", ctx, len, n, other),
                        &complete,
                    );
                    return;
                }
            }
        }
        rep.sig(&format!("b|{}|{}", n / 8, pl > 0));
        if rep.want_sample() && n < 90 {
            rep.sample(format!(
                "{{\"builder\":{},\"packet_len\":{},\"faults_injected\":\"writer fails at every byte 0..={} (partial and reject mode), output slices of every length 0..={}\"}}",
                jstr(&ctx),
                n,
                n + 1,
                n + 1
            ));
        }
    }
}

/// a seekable source whose bytes at positions >= `bad_from` cannot be delivered: reads that reach
/// them fail (injected error) or hit the end of the data (`eof`); seeking itself never fails, as
/// with `std::io::Cursor` and files
struct PosFailingReader<'a> {
    data: &'a [u8],
    pos: u64,
    bad_from: usize,
    eof: bool,
}

impl<'a> Read for PosFailingReader<'a> {
    fn read(&mut self, buf: &mut [u8]) -> std::io::Result<usize> {
        if buf.is_empty() {
            return Ok(0);
        }
        let end = self.bad_from.min(self.data.len());
        let p = self.pos.min(usize::MAX as u64) as usize;
        if p >= end {
            if self.eof || p >= self.data.len() && self.bad_from >= self.data.len() {
                return Ok(0);
            }
            return Err(std::io::Error::new(std::io::ErrorKind::ConnectionReset, INJECTED));
        }
        let n = buf.len().min(end - p);
        buf[..n].copy_from_slice(&self.data[p..p + n]);
        self.pos += n as u64;
        Ok(n)
    }
}
impl<'a> Seek for PosFailingReader<'a> {
    fn seek(&mut self, pos: SeekFrom) -> std::io::Result<u64> {
        let np = match pos {
            SeekFrom::Start(p) => p as i128,
            SeekFrom::Current(d) => self.pos as i128 + d as i128,
            SeekFrom::End(d) => self.data.len() as i128 + d as i128,
        };
        if np < 0 {
            return Err(std::io::Error::new(std::io::ErrorKind::InvalidInput, "seek before start"));
        }
        self.pos = np as u64;
        Ok(self.pos)
    }
}

/// reference for the "skip" walkers (RFC 8200 §4, RFC 4302 §2.2): length of the extension header
/// announced by number `n` at the start of `b`, None if the number has no skippable layout
fn skippable_len(n: u8, b: &[u8]) -> Option<Option<usize>> {
    match n {
        44 => Some(Some(8)),
        51 => Some(b.get(1).map(|l| (*l as usize + 2) * 4)),
        0 | 43 | 60 | 135 | 139 | 140 => Some(b.get(1).map(|l| (*l as usize + 1) * 8)),
        _ => None,
    }
}

impl C16 {
    /// `Ipv6Header::skip_header_extension` / `skip_all_header_extensions` over sources that end or
    /// fail at every position of the chain
    fn skip(&mut self, rep: &mut Report, rng: &mut Prng) {
        use etherparse::{IpNumber, Ipv6Header};
        let t = HEADERS.iter().find(|t| t.name == "Ipv6Extensions").unwrap();
        let all = (t.gen)(rng);
        if all.is_empty() {
            return;
        }
        let first = if rng.chance(1, 6) { *rng.pick(&[135u8, 139, 140, 50, 253, 17]) } else { all[0] };
        let data = &all[1..];
        // reference walk over the complete data
        let one = skippable_len(first, data);
        let mut chain: Vec<(u8, usize, usize)> = Vec::new(); // (number, offset, len)
        {
            let mut n = first;
            let mut off = 0usize;
            while let Some(l) = skippable_len(n, &data[off.min(data.len())..]) {
                match l {
                    Some(l) if off + l <= data.len() => {
                        chain.push((n, off, l));
                        n = data[off];
                        off += l;
                    }
                    _ => {
                        chain.push((n, off, usize::MAX));
                        break;
                    }
                }
                if chain.len() > 300 {
                    break;
                }
            }
        }
        let limit = data.len().min(96);
        for k in 0..=limit + 1 {
            for eof in [false, true] {
                rep.evals += 1;
                shell::progress_entry(1690);
                let bad_from = if k > limit { usize::MAX } else { k };
                // (a) single step
                let res = shell::guarded(|| {
                    let mut r = PosFailingReader { data, pos: 0, bad_from, eof };
                    Ipv6Header::skip_header_extension(&mut r, IpNumber(first)).map(|n| (n.0, r.pos)).map_err(|e| format!("{:?}", e.kind()))
                });
                let avail = bad_from.min(data.len());
                let want: Result<(u8, u64), ()> = match one {
                    None => Ok((first, 0)),
                    Some(l) => {
                        let l = if avail >= 2 || (first == 44 && avail >= 1) { l.or(if first == 44 { Some(8) } else { None }) } else { None };
                        match l {
                            Some(l) if l <= avail => Ok((data[0], l as u64)),
                            _ => Err(()),
                        }
                    }
                };
                match res {
                    Ok(got) => {
                        let ok = match (&got, &want) {
                            (Ok(g), Ok(w)) => g == w,
                            (Err(_), Err(())) => true,
                            _ => false,
                        };
                        if ok {
                            rep.count(if want.is_ok() { "skip.step_ok" } else { "skip.step_fault_surfaced" });
                        } else {
                            rep.violation(
                                &format!("skip_header_extension|{}|{}", if want.is_ok() { "spurious_error_or_wrong_position" } else { "fault_not_surfaced" }, if eof { "eof" } else { "error" }),
                                format!(
                                    "Ipv6Header::skip_header_extension(number {}) over {} readable bytes of {}: {:?}, expected {:?}",
                                    first, avail, hex(&data[..data.len().min(48)]), got, want
                                ),
                                &all,
                            );
                            return;
                        }
                    }
                    Err(p) => {
                        rep.violation(&format!("panic|Ipv6Header::skip_header_extension|{}", p.location()), p.0, &all);
                        return;
                    }
                }
                // (b) the whole chain
                let res = shell::guarded(|| {
                    let mut r = PosFailingReader { data, pos: 0, bad_from, eof };
                    Ipv6Header::skip_all_header_extensions(&mut r, IpNumber(first)).map(|n| (n.0, r.pos)).map_err(|e| format!("{:?}", e.kind()))
                });
                let want_all: Result<(u8, u64), ()> = {
                    let mut w = Ok((first, 0u64));
                    for (_, off, l) in &chain {
                        if *l == usize::MAX || off + l > avail {
                            w = Err(());
                            break;
                        }
                        w = Ok((data[*off], (off + l) as u64));
                    }
                    w
                };
                match res {
                    Ok(got) => {
                        let ok = match (&got, &want_all) {
                            (Ok(g), Ok(w)) => g == w,
                            (Err(_), Err(())) => true,
                            _ => false,
                        };
                        if ok {
                            rep.count(if want_all.is_ok() { "skip.all_ok" } else { "skip.all_fault_surfaced" });
                        } else {
                            rep.violation(
                                &format!("skip_all_header_extensions|{}|{}", if want_all.is_ok() { "spurious_error_or_wrong_position" } else { "fault_not_surfaced" }, if eof { "eof" } else { "error" }),
                                format!(
                                    "Ipv6Header::skip_all_header_extensions(number {}) over {} readable bytes of {}: {:?}, expected {:?} (chain {:?})",
                                    first, avail, hex(&data[..data.len().min(48)]), got, want_all, chain
                                ),
                                &all,
                            );
                            return;
                        }
                    }
                    Err(p) => {
                        rep.violation(&format!("panic|Ipv6Header::skip_all_header_extensions|{}", p.location()), p.0, &all);
                        return;
                    }
                }
            }
        }
        rep.sig(&format!("skip|{}|{}", chain.len().min(6), chain.last().map(|c| c.2 == usize::MAX).unwrap_or(false)));
    }
}

impl Monitor for C16 {
    fn engines(&self, tier: Tier) -> Vec<(&'static str, u64)> {
        vec![
            ("writers", tier.pick(400_000, 15_000_000)),
            ("readers", tier.pick(600_000, 21_000_000)),
            ("limited", tier.pick(200_000, 7_500_000)),
            ("builder", tier.pick(80_000, 3_000_000)),
            ("skip", tier.pick(60_000, 2_400_000)),
        ]
    }

    fn run_case(&mut self, engine: &str, _idx: u64, rng: &mut Prng, rep: &mut Report) {
        match engine {
            "writers" => self.writers(rep, rng),
            "readers" => self.readers(rep, rng),
            "limited" => self.limited(rep, rng),
            "builder" => self.builder(rep, rng),
            "skip" => self.skip(rep, rng),
            _ => {}
        }
    }
}
