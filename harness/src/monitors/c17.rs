//! C17 — typed control-message views (ICMPv4, ICMPv6 + NDP, IGMP, ARP) follow their formats.
//!
//! Every input is decoded by the independent reference `refmodel::ctrl` (RFC 792, 4443, 4861,
//! 1112/2236/3376/9776, 826) and by etherparse; compared are the message kind, the field values,
//! the split between the fixed and the variable part ((offset, len) of every slice handed out),
//! the option sequence of neighbour discovery option areas (which must tile the area up to the
//! first rejected option) and the verdict (rejected exactly when too short / zero length unit /
//! wrong size of a fixed size option). Every (type, code) without a typed variant must come back
//! as the raw `Unknown` form.

use super::common::note_abnormal;
use super::{Monitor, Tier};
use crate::gen::headers;
use crate::prng::Prng;
use crate::refmodel::ctrl::{self, be_var, Reject, Short, F};
use crate::report::{hex, jstr, Report};
use crate::shell;
use etherparse::err::LenError;
use etherparse::icmpv6::{
    Icmpv6Payload, Icmpv6PayloadSlice, MtuOptionSlice, NdpOptionHeader, NdpOptionReadError, NdpOptionSlice,
    NdpOptionsIterator, PrefixInformation, PrefixInformationOptionSlice, RedirectedHeaderOptionSlice,
    SourceLinkLayerAddressOptionSlice, TargetLinkLayerAddressOptionSlice, UnknownNdpOptionSlice,
};
use etherparse::*;

pub struct C17 {
    st: St,
}

/// which families already contributed a sample (the report keeps 4 samples)
pub struct St {
    sampled: u32,
    /// results of the exhaustive engines: bit sets over the enumerated values for which
    /// etherparse and the reference agreed on an accepted input
    v4_typed: Bits,
    v4_unknown: Bits,
    v6_typed: Bits,
    v6_unknown: Bits,
    ndp_pairs: Bits,
    igmp_types: Bits,
    arp_pairs: Bits,
}

pub struct Bits(Vec<u64>);

impl Bits {
    fn new(n: usize) -> Bits {
        Bits(vec![0; (n + 63) / 64])
    }
    fn set(&mut self, i: usize) {
        self.0[i / 64] |= 1 << (i % 64);
    }
    fn count(&self) -> u64 {
        self.0.iter().map(|w| w.count_ones() as u64).sum()
    }
}

impl St {
    fn want(&mut self, rep: &Report, family: u32) -> bool {
        if rep.want_sample() && self.sampled & (1 << family) == 0 {
            self.sampled |= 1 << family;
            true
        } else {
            false
        }
    }
}

impl C17 {
    pub fn new() -> C17 {
        C17 {
            st: St {
                sampled: 0,
                v4_typed: Bits::new(65_536),
                v4_unknown: Bits::new(65_536),
                v6_typed: Bits::new(65_536),
                v6_unknown: Bits::new(65_536),
                ndp_pairs: Bits::new(65_536),
                igmp_types: Bits::new(256 * IGMP_LENS as usize),
                arp_pairs: Bits::new(65_536),
            },
        }
    }
}

/// (offset, len) of a slice relative to the input
type R = (usize, usize);
const NOWHERE: usize = usize::MAX;

fn rin(base: &[u8], sub: &[u8]) -> R {
    let b = base.as_ptr() as usize;
    let s = sub.as_ptr() as usize;
    if s >= b && s + sub.len() <= b + base.len() {
        (s - b, sub.len())
    } else {
        (NOWHERE, sub.len())
    }
}

/// an empty slice that cannot be located (a constant `&[]`) is accepted for an empty range
fn same_r(want: R, got: R) -> bool {
    want.1 == got.1 && (want.0 == got.0 || (got.1 == 0 && got.0 == NOWHERE))
}

fn be32a(a: [u8; 4]) -> u128 {
    u32::from_be_bytes(a) as u128
}

fn show_f(f: &[F]) -> String {
    let mut s = String::new();
    for (k, v) in f {
        if !s.is_empty() {
            s.push(' ');
        }
        s.push_str(&format!("{}={:#x}", k, v));
    }
    s
}

/// name of the first field that differs
fn diff_fields(want: &[F], got: &[F]) -> Option<&'static str> {
    if want.len() != got.len() {
        return Some("field_set");
    }
    for (w, g) in want.iter().zip(got.iter()) {
        if w.0 != g.0 {
            return Some("field_set");
        }
        if w.1 != g.1 {
            return Some(w.0);
        }
    }
    None
}

fn shown(b: &[u8]) -> String {
    if b.len() > 64 {
        format!("{}..(+{})", hex(&b[..64]), b.len() - 64)
    } else {
        hex(b)
    }
}

#[derive(Clone, Debug)]
struct OLen {
    required: usize,
    len: usize,
    layer: String,
}

fn olen(e: &LenError) -> OLen {
    OLen {
        required: e.required_len,
        len: e.len,
        layer: format!("{:?}", e.layer),
    }
}

/// compares the verdicts; true if both sides accept (fields are compared by the caller)
fn judge_verdict(
    rep: &mut Report,
    fam: &str,
    entry: &str,
    want_kind: Option<&str>,
    want_err: Option<&Short>,
    got_err: Option<&OLen>,
    b: &[u8],
) -> bool {
    match (want_err, got_err) {
        (None, None) => true,
        (Some(s), Some(e)) => {
            if e.required != s.required || e.len != s.len {
                rep.violation(
                    &format!("{}|error_values|{}|{}", fam, entry, s.rule),
                    format!(
                        "{}: rejected with required_len {} len {} ({}) but the rule {} needs {} of {} bytes",
                        entry, e.required, e.len, e.layer, s.rule, s.required, s.len
                    ),
                    b,
                );
            } else {
                rep.count(&format!("{}.rejected.{}", fam, s.rule));
                // non-trivial: a length rule of the format fired
                rep.sig(&format!("{}|{}|rejected|{}", fam, entry, s.rule));
            }
            false
        }
        (Some(s), None) => {
            rep.violation(
                &format!("{}|accepted_malformed|{}|{}", fam, entry, s.rule),
                format!("{}: accepted although {} needs {} bytes and {} are present", entry, s.rule, s.required, s.len),
                b,
            );
            false
        }
        (None, Some(e)) => {
            rep.violation(
                &format!("{}|rejected_wellformed|{}|{}", fam, entry, want_kind.unwrap_or("?")),
                format!(
                    "{}: rejected (required_len {} len {} layer {}) but the reference decodes a {} message",
                    entry,
                    e.required,
                    e.len,
                    e.layer,
                    want_kind.unwrap_or("?")
                ),
                b,
            );
            false
        }
    }
}

/// kind + fields of a decoded message
fn judge_msg(rep: &mut Report, fam: &str, entry: &str, want: (&str, &[F]), got: (&str, &[F]), b: &[u8]) -> bool {
    if want.0 != got.0 {
        rep.violation(
            &format!("{}|kind|{}|want={}|got={}", fam, entry, want.0, got.0),
            format!(
                "{}: reference decodes {} [{}] but etherparse returns {} [{}]",
                entry,
                want.0,
                show_f(want.1),
                got.0,
                show_f(got.1)
            ),
            b,
        );
        return false;
    }
    if let Some(n) = diff_fields(want.1, got.1) {
        rep.violation(
            &format!("{}|field|{}|{}|{}", fam, entry, want.0, n),
            format!("{}: {}: reference [{}] etherparse [{}]", entry, want.0, show_f(want.1), show_f(got.1)),
            b,
        );
        return false;
    }
    true
}

fn judge_range(rep: &mut Report, fam: &str, entry: &str, what: &str, kind: &str, want: R, got: R, b: &[u8]) -> bool {
    if same_r(want, got) {
        true
    } else {
        rep.violation(
            &format!("{}|range|{}|{}|{}", fam, entry, what, kind),
            format!(
                "{}: {} of a {} message is @{}+{} but the format puts it @{}+{}",
                entry, what, kind, got.0 as isize, got.1, want.0, want.1
            ),
            b,
        );
        false
    }
}

fn judge_eq<T: PartialEq + core::fmt::Debug>(rep: &mut Report, sig: &str, what: &str, want: T, got: T, b: &[u8]) -> bool {
    if want == got {
        true
    } else {
        rep.violation(sig, format!("{}: expected {:?}, etherparse {:?}", what, want, got), b);
        false
    }
}

// ---------------------------------------------------------------------------------------------
// ICMPv4
// ---------------------------------------------------------------------------------------------

fn obs_icmp4_type(t: &Icmpv4Type) -> (&'static str, Vec<F>) {
    use etherparse::icmpv4::*;
    match t {
        Icmpv4Type::Unknown {
            type_u8,
            code_u8,
            bytes5to8,
        } => (
            "Unknown",
            vec![("type", *type_u8 as u128), ("code", *code_u8 as u128), ("bytes5to8", be32a(*bytes5to8))],
        ),
        Icmpv4Type::EchoReply(h) => ("EchoReply", vec![("id", h.id as u128), ("seq", h.seq as u128)]),
        Icmpv4Type::EchoRequest(h) => ("EchoRequest", vec![("id", h.id as u128), ("seq", h.seq as u128)]),
        Icmpv4Type::DestinationUnreachable(h) => {
            use DestUnreachableHeader::*;
            // code numbers of RFC 792, RFC 1122 §3.2.2.1 and RFC 1812 §5.2.7.1
            let (code, mtu): (u128, Option<u16>) = match h {
                Network => (0, None),
                Host => (1, None),
                Protocol => (2, None),
                Port => (3, None),
                FragmentationNeeded { next_hop_mtu } => (4, Some(*next_hop_mtu)),
                SourceRouteFailed => (5, None),
                NetworkUnknown => (6, None),
                HostUnknown => (7, None),
                Isolated => (8, None),
                NetworkProhibited => (9, None),
                HostProhibited => (10, None),
                TosNetwork => (11, None),
                TosHost => (12, None),
                FilterProhibited => (13, None),
                HostPrecedenceViolation => (14, None),
                PrecedenceCutoff => (15, None),
            };
            let mut f = vec![("code", code)];
            if let Some(m) = mtu {
                f.push(("next_hop_mtu", m as u128));
            }
            ("DestinationUnreachable", f)
        }
        Icmpv4Type::Redirect(h) => {
            let code = match h.code {
                RedirectCode::RedirectForNetwork => 0,
                RedirectCode::RedirectForHost => 1,
                RedirectCode::RedirectForTypeOfServiceAndNetwork => 2,
                RedirectCode::RedirectForTypeOfServiceAndHost => 3,
            };
            ("Redirect", vec![("code", code), ("gateway", be32a(h.gateway_internet_address))])
        }
        Icmpv4Type::TimeExceeded(c) => {
            let code = match c {
                TimeExceededCode::TtlExceededInTransit => 0,
                TimeExceededCode::FragmentReassemblyTimeExceeded => 1,
            };
            ("TimeExceeded", vec![("code", code)])
        }
        Icmpv4Type::ParameterProblem(h) => match h {
            ParameterProblemHeader::PointerIndicatesError(p) => ("ParameterProblem", vec![("code", 0), ("pointer", *p as u128)]),
            ParameterProblemHeader::MissingRequiredOption => ("ParameterProblem", vec![("code", 1)]),
            ParameterProblemHeader::BadLength => ("ParameterProblem", vec![("code", 2)]),
        },
        Icmpv4Type::TimestampRequest(m) | Icmpv4Type::TimestampReply(m) => (
            if matches!(t, Icmpv4Type::TimestampRequest(_)) {
                "TimestampRequest"
            } else {
                "TimestampReply"
            },
            vec![
                ("id", m.id as u128),
                ("seq", m.seq as u128),
                ("originate", m.originate_timestamp as u128),
                ("receive", m.receive_timestamp as u128),
                ("transmit", m.transmit_timestamp as u128),
            ],
        ),
    }
}

struct O4 {
    kind: &'static str,
    f: Vec<F>,
    header_type_same: bool,
    checksum: (u16, u16),
    raw: (u8, u8, [u8; 4]),
    header_lens: [usize; 3],
    fixed_payload: Option<usize>,
    pay: R,
    whole: R,
}

/// returns the kind if etherparse and the reference agree on an accepted message
fn check_icmp4(rep: &mut Report, st: &mut St, b: &[u8]) -> Option<&'static str> {
    rep.evals += 1;
    let want = ctrl::icmp4(b);
    shell::progress_entry(1701);
    let got = shell::guarded(|| {
        let a = match Icmpv4Slice::from_slice(b) {
            Err(e) => Err(olen(&e)),
            Ok(s) => {
                let t = s.icmp_type();
                let h = s.header();
                let (kind, f) = obs_icmp4_type(&t);
                Ok(O4 {
                    kind,
                    f,
                    header_type_same: h.icmp_type == t,
                    checksum: (s.checksum(), h.checksum),
                    raw: (s.type_u8(), s.code_u8(), s.bytes5to8()),
                    header_lens: [s.header_len(), t.header_len(), h.header_len()],
                    fixed_payload: t.fixed_payload_size(),
                    pay: rin(b, s.payload()),
                    whole: rin(b, s.slice()),
                })
            }
        };
        let h = match Icmpv4Header::from_slice(b) {
            Err(e) => Err(olen(&e)),
            Ok((h, rest)) => {
                let (kind, f) = obs_icmp4_type(&h.icmp_type);
                Ok((kind, f, h.checksum, rin(b, rest)))
            }
        };
        (a, h)
    });
    let (a, h) = match got {
        Ok(x) => x,
        Err(p) => {
            note_abnormal(rep, "Icmpv4Slice::from_slice", &p);
            return None;
        }
    };
    let fam = "icmp4";
    let wk = want.as_ref().ok().map(|m| m.kind);
    // Icmpv4Header::from_slice
    if judge_verdict(rep, fam, "Icmpv4Header::from_slice", wk, want.as_ref().err(), h.as_ref().err(), b) {
        let (w, (kind, f, ck, rest)) = (want.as_ref().unwrap(), h.as_ref().unwrap());
        let e = "Icmpv4Header::from_slice";
        let _ = judge_msg(rep, fam, e, (w.kind, &w.f), (kind, f), b)
            && judge_eq(rep, "icmp4|checksum|Icmpv4Header::from_slice", "checksum", ctrl::be16(b, 2) as u16, *ck, b)
            && judge_range(rep, fam, e, "rest", w.kind, (w.fixed, b.len() - w.fixed), *rest, b);
    }
    // Icmpv4Slice
    let e = "Icmpv4Slice";
    if !judge_verdict(rep, fam, e, wk, want.as_ref().err(), a.as_ref().err(), b) {
        return None;
    }
    let (w, o) = (want.as_ref().unwrap(), a.as_ref().unwrap());
    let ck = ctrl::be16(b, 2) as u16;
    let ok = judge_msg(rep, fam, e, (w.kind, &w.f), (o.kind, &o.f), b)
        && judge_eq(rep, "icmp4|header_vs_icmp_type", "header().icmp_type == icmp_type()", true, o.header_type_same, b)
        && judge_eq(rep, "icmp4|checksum|Icmpv4Slice", "checksum (slice, header)", (ck, ck), o.checksum, b)
        && judge_eq(
            rep,
            "icmp4|raw_accessors",
            "type_u8/code_u8/bytes5to8",
            (b[0], b[1], [b[4], b[5], b[6], b[7]]),
            o.raw,
            b,
        )
        && judge_eq(
            rep,
            &format!("icmp4|header_len|{}", w.kind),
            "header_len of slice/type/header",
            [w.fixed; 3],
            o.header_lens,
            b,
        )
        && judge_eq(
            rep,
            &format!("icmp4|fixed_payload_size|{}", w.kind),
            "fixed_payload_size",
            if w.fixed == 20 { Some(0) } else { None },
            o.fixed_payload,
            b,
        )
        && judge_range(rep, fam, e, "payload", w.kind, (w.fixed, b.len() - w.fixed), o.pay, b)
        && judge_range(rep, fam, e, "slice", w.kind, (0, b.len()), o.whole, b);
    if !ok {
        return None;
    }
    if w.kind == "Unknown" {
        rep.count("icmp4.unknown_fallback");
        // every type has its own way into the fall-back
        rep.sig(&format!("icmp4|Unknown|t={}|assigned_type={}", b[0], matches!(b[0], 0 | 3 | 5 | 8 | 11..=14)));
    } else {
        rep.count(&format!("icmp4.typed.{}", w.kind));
        // non-trivial: a typed variant with its code
        rep.sig(&format!("icmp4|{}|c={}|payload={}", w.kind, b[1], b.len() > w.fixed));
        if b.len() <= 48 && b.len() > w.fixed && st.want(rep, 0) {
            rep.sample(format!(
                "{{\"family\":\"icmpv4\",\"bytes_hex\":{},\"decoded\":{},\"fields\":{},\"payload_off\":{},\"payload_len\":{}}}",
                jstr(&hex(b)),
                jstr(w.kind),
                jstr(&show_f(&o.f)),
                o.pay.0,
                o.pay.1
            ));
        }
    }
    Some(w.kind)
}

// ---------------------------------------------------------------------------------------------
// neighbour discovery options
// ---------------------------------------------------------------------------------------------

struct OOpt {
    ty: u8,
    kind: &'static str,
    r: R,
    f: Vec<F>,
    body: R,
    /// `rest().len()` of the iterator behind this option
    rest_len: usize,
    notes: Vec<&'static str>,
}

struct OOpts {
    opts: Vec<OOpt>,
    err: Option<NdpOptionReadError>,
    /// `rest().len()` behind the error
    err_rest_len: usize,
    /// items yielded behind the first error / behind the end
    extra: Vec<String>,
    capped: bool,
}

fn prefix_fields(p: &PrefixInformation) -> Vec<F> {
    vec![
        ("prefix_length", p.prefix_length as u128),
        ("on_link", p.on_link as u128),
        ("autonomous", p.autonomous_address_configuration as u128),
        ("valid_lifetime", p.valid_lifetime as u128),
        ("preferred_lifetime", p.preferred_lifetime as u128),
        ("prefix", u128::from_be_bytes(p.prefix)),
    ]
}

fn obs_opt(base: &[u8], o: &NdpOptionSlice, rest_len: usize) -> OOpt {
    let ty = o.option_type().0;
    let bytes = o.as_bytes();
    let r = rin(base, bytes);
    let mut notes = Vec::new();
    let (kind, f, body): (&'static str, Vec<F>, R) = match o {
        NdpOptionSlice::SourceLinkLayerAddress(s) => {
            if s.option_type().0 != 1 {
                notes.push("slla_option_type");
            }
            (
                "SourceLinkLayerAddress",
                vec![("addr", be_var(s.link_layer_address()))],
                rin(base, s.link_layer_address()),
            )
        }
        NdpOptionSlice::TargetLinkLayerAddress(s) => {
            if s.option_type().0 != 2 {
                notes.push("tlla_option_type");
            }
            (
                "TargetLinkLayerAddress",
                vec![("addr", be_var(s.link_layer_address()))],
                rin(base, s.link_layer_address()),
            )
        }
        NdpOptionSlice::PrefixInformation(s) => {
            let f = vec![
                ("prefix_length", s.prefix_length() as u128),
                ("on_link", s.on_link() as u128),
                ("autonomous", s.autonomous_address_configuration() as u128),
                ("valid_lifetime", s.valid_lifetime() as u128),
                ("preferred_lifetime", s.preferred_lifetime() as u128),
                ("prefix", u128::from_be_bytes(s.prefix())),
            ];
            if prefix_fields(&s.prefix_information()) != f {
                notes.push("prefix_information_struct_vs_accessors");
            }
            match PrefixInformation::from_slice(s.as_bytes()) {
                Ok(p) if prefix_fields(&p) == f => {}
                _ => notes.push("prefix_information_from_slice_vs_accessors"),
            }
            let body = if bytes.len() >= 32 { rin(base, &bytes[16..32]) } else { (NOWHERE, 0) };
            ("PrefixInformation", f, body)
        }
        NdpOptionSlice::RedirectedHeader(s) => ("RedirectedHeader", vec![], rin(base, s.redirected_packet())),
        NdpOptionSlice::Mtu(s) => {
            let body = if bytes.len() >= 8 { rin(base, &bytes[4..8]) } else { (NOWHERE, 0) };
            ("Mtu", vec![("mtu", s.mtu() as u128)], body)
        }
        NdpOptionSlice::Unknown(s) => ("Unknown", vec![], rin(base, s.data())),
        _ => ("?", vec![], (NOWHERE, 0)),
    };
    OOpt {
        ty,
        kind,
        r,
        f,
        body,
        rest_len,
        notes,
    }
}

fn observe_opts(base: &[u8], mut it: NdpOptionsIterator) -> OOpts {
    let mut o = OOpts {
        opts: Vec::new(),
        err: None,
        err_rest_len: 0,
        extra: Vec::new(),
        capped: false,
    };
    // an option has at least 8 bytes
    let cap = base.len() / 8 + 4;
    loop {
        if o.opts.len() > cap {
            o.capped = true;
            return o;
        }
        match it.next() {
            None => break,
            Some(Ok(opt)) => {
                let rl = it.rest().len();
                o.opts.push(obs_opt(base, &opt, rl));
            }
            Some(Err(e)) => {
                o.err = Some(e);
                o.err_rest_len = it.rest().len();
                break;
            }
        }
    }
    // exhausted (or failed) iterators stay exhausted
    for _ in 0..3 {
        match it.next() {
            None => {}
            Some(Ok(x)) => o.extra.push(format!("Ok(type {})", x.option_type().0)),
            Some(Err(e)) => o.extra.push(format!("Err({:?})", e)),
        }
    }
    o
}

fn tyc(ty: u8) -> String {
    if (1..=5).contains(&ty) {
        format!("{}", ty)
    } else {
        "other".to_string()
    }
}

fn err_class(e: &NdpOptionReadError) -> &'static str {
    match e {
        NdpOptionReadError::UnexpectedEndOfSlice { .. } => "UnexpectedEndOfSlice",
        NdpOptionReadError::ZeroLength { .. } => "ZeroLength",
        NdpOptionReadError::UnexpectedSize { .. } => "UnexpectedSize",
        NdpOptionReadError::UnexpectedHeader { .. } => "UnexpectedHeader",
        _ => "other",
    }
}

/// (class admissible, values truthful)
fn reject_matches(r: &ctrl::RReject, e: &NdpOptionReadError) -> (bool, bool) {
    let has = |x: Reject| r.reasons.contains(&x);
    let units = r.units.unwrap_or(0);
    let fixed = ctrl::fixed_units(r.ty);
    match e {
        NdpOptionReadError::UnexpectedEndOfSlice {
            option_id,
            expected_size,
            actual_size,
        } => (
            has(Reject::Truncated) || has(Reject::TruncatedHeader),
            option_id.0 == r.ty
                && *actual_size == r.left
                && (*expected_size == units as usize * 8 && has(Reject::Truncated) || *expected_size == 2 && has(Reject::TruncatedHeader)),
        ),
        NdpOptionReadError::ZeroLength { option_id } => (has(Reject::ZeroLength), option_id.0 == r.ty),
        NdpOptionReadError::UnexpectedSize {
            option_id,
            expected_size,
            actual_size,
        } => {
            let as_header = has(Reject::TruncatedHeader) && *expected_size == 2 && *actual_size == r.left;
            let as_fixed = has(Reject::WrongFixedSize)
                && Some(*expected_size) == fixed.map(|u| u as usize * 8)
                && *actual_size == units as usize * 8;
            (
                has(Reject::TruncatedHeader) || has(Reject::WrongFixedSize),
                option_id.0 == r.ty && (as_header || as_fixed),
            )
        }
        NdpOptionReadError::UnexpectedHeader {
            expected_option_id,
            actual_option_id,
            expected_length_units,
            actual_length_units,
        } => (
            has(Reject::WrongFixedSize),
            expected_option_id.0 == r.ty
                && actual_option_id.0 == r.ty
                && Some(*expected_length_units) == fixed
                && *actual_length_units == units,
        ),
        _ => (false, false),
    }
}

/// `area` = `base[area_off..]`; `ctx` names the message the area belongs to
fn judge_opts(rep: &mut Report, ctx: &str, base: &[u8], area_off: usize, want: &ctrl::ROpts, got: &OOpts) -> bool {
    let area_len = base.len() - area_off;
    if got.capped {
        rep.violation(
            &format!("ndp_iter|does_not_terminate|{}", ctx),
            format!("{}: the option iterator yielded more options than the area of {} bytes can hold", ctx, area_len),
            base,
        );
        return false;
    }
    // (1) tiling, independent of the reference walk
    let mut at = area_off;
    for (i, o) in got.opts.iter().enumerate() {
        if o.r.0 != at || o.r.1 == 0 {
            rep.violation(
                &format!("ndp_iter|tiling|gap_or_overlap|{}", ctx),
                format!(
                    "{}: option #{} (type {}) covers @{}+{} but the previous option ended at {}",
                    ctx, i, o.ty, o.r.0 as isize, o.r.1, at
                ),
                base,
            );
            return false;
        }
        at += o.r.1;
        if o.rest_len != base.len() - at.min(base.len()) {
            rep.violation(
                &format!("ndp_iter|rest_len|{}", ctx),
                format!("{}: rest() has {} bytes behind option #{} ending at {} of {}", ctx, o.rest_len, i, at, base.len()),
                base,
            );
            return false;
        }
        for n in &o.notes {
            rep.violation(
                &format!("ndp_opt|inconsistent|{}", n),
                format!("{}: option #{} (type {}): {}", ctx, i, o.ty, n),
                base,
            );
        }
    }
    if got.err.is_none() && at != base.len() {
        rep.violation(
            &format!("ndp_iter|tiling|area_not_covered|{}", ctx),
            format!("{}: iteration ended without error at {} but the area ends at {}", ctx, at, base.len()),
            base,
        );
        return false;
    }
    // (2) option by option against the reference
    for (i, (w, o)) in want.opts.iter().zip(got.opts.iter()).enumerate() {
        let wr = (w.off + area_off, w.len);
        let wb = (w.body_off + area_off, w.body_len);
        let what = if w.kind != o.kind {
            Some("kind")
        } else if w.ty != o.ty {
            Some("option_type")
        } else if !same_r(wr, o.r) {
            Some("range")
        } else if let Some(n) = diff_fields(&w.f, &o.f) {
            Some(n)
        } else if !same_r(wb, o.body) {
            Some("body_range")
        } else {
            None
        };
        if let Some(what) = what {
            rep.violation(
                &format!("ndp_opt|{}|{}|type={}", what, w.kind, tyc(w.ty)),
                format!(
                    "{}: option #{}: reference {} type {} @{}+{} body @{}+{} [{}]; etherparse {} type {} @{}+{} body @{}+{} [{}]",
                    ctx,
                    i,
                    w.kind,
                    w.ty,
                    wr.0,
                    wr.1,
                    wb.0,
                    wb.1,
                    show_f(&w.f),
                    o.kind,
                    o.ty,
                    o.r.0 as isize,
                    o.r.1,
                    o.body.0 as isize,
                    o.body.1,
                    show_f(&o.f)
                ),
                base,
            );
            return false;
        }
    }
    // (3) where the walk stops
    if got.opts.len() < want.opts.len() {
        let w = &want.opts[got.opts.len()];
        rep.violation(
            &format!(
                "ndp_iter|rejected_wellformed|{}|type={}|{}",
                w.kind,
                tyc(w.ty),
                got.err.as_ref().map(err_class).unwrap_or("end")
            ),
            format!(
                "{}: option #{} ({} type {} units {} @{}) is well-formed but the iterator stops with {:?}",
                ctx,
                got.opts.len(),
                w.kind,
                w.ty,
                w.units,
                w.off + area_off,
                got.err
            ),
            base,
        );
        return false;
    }
    if got.opts.len() > want.opts.len() {
        let r = want.reject.as_ref();
        rep.violation(
            &format!(
                "ndp_iter|accepted_malformed|{:?}|type={}",
                r.map(|r| r.reasons.clone()).unwrap_or_default(),
                r.map(|r| tyc(r.ty)).unwrap_or_default()
            ),
            format!("{}: option #{} must be rejected ({:?}) but was handed out", ctx, want.opts.len(), r),
            base,
        );
        return false;
    }
    match (&want.reject, &got.err) {
        (None, None) => {
            if want.opts.is_empty() {
                rep.count("ndp.area_empty");
            } else {
                rep.count("ndp.area_clean");
            }
        }
        (Some(r), Some(e)) => {
            let (class_ok, values_ok) = reject_matches(r, e);
            if !class_ok {
                rep.violation(
                    &format!("ndp_iter|wrong_error|{:?}|type={}|{}", r.reasons, tyc(r.ty), err_class(e)),
                    format!("{}: the option at {} must be rejected because of {:?} but the error is {:?}", ctx, r.off + area_off, r.reasons, e),
                    base,
                );
                return false;
            }
            if !values_ok {
                rep.violation(
                    &format!("ndp_iter|error_values|{:?}|type={}|{}", r.reasons, tyc(r.ty), err_class(e)),
                    format!(
                        "{}: error {:?} does not describe the option at {} (type {} units {:?}, {} bytes left)",
                        ctx,
                        e,
                        r.off + area_off,
                        r.ty,
                        r.units,
                        r.left
                    ),
                    base,
                );
                return false;
            }
            if !got.extra.is_empty() {
                rep.violation(
                    &format!("ndp_iter|items_after_error|{}", err_class(e)),
                    format!("{}: after the error {:?} the iterator yielded {:?}", ctx, e, got.extra),
                    base,
                );
                return false;
            }
            if got.err_rest_len != 0 {
                rep.violation(
                    &format!("ndp_iter|rest_not_empty_after_error|{}", err_class(e)),
                    format!("{}: rest() still has {} bytes after the error {:?}", ctx, got.err_rest_len, e),
                    base,
                );
                return false;
            }
            for x in &r.reasons {
                rep.count(&format!("ndp.reject.{:?}", x));
            }
            rep.count("ndp.errors_seen");
            // non-trivial: a rejection rule fired behind n accepted options
            rep.sig(&format!(
                "ndp|reject|{:?}|type={}|{}|after={}",
                r.reasons,
                tyc(r.ty),
                err_class(e),
                want.opts.len().min(3)
            ));
        }
        (Some(r), None) => {
            rep.violation(
                &format!("ndp_iter|no_error|{:?}|type={}", r.reasons, tyc(r.ty)),
                format!("{}: the option at {} must be rejected ({:?}) but the iterator just ends", ctx, r.off + area_off, r.reasons),
                base,
            );
            return false;
        }
        (None, Some(e)) => {
            rep.violation(
                &format!("ndp_iter|spurious_error|{}", err_class(e)),
                format!("{}: all {} options are well-formed but the iterator reports {:?}", ctx, want.opts.len(), e),
                base,
            );
            return false;
        }
    }
    if got.err.is_none() && !got.extra.is_empty() {
        rep.violation(
            "ndp_iter|items_after_end",
            format!("{}: after None the iterator yielded {:?}", ctx, got.extra),
            base,
        );
        return false;
    }
    for w in &want.opts {
        rep.count(&format!("ndp.opt.{}", w.kind));
        // non-trivial: an option handed out with its size class
        rep.sig(&format!("ndp|opt|{}|type={}|units={}", w.kind, tyc(w.ty), w.units.min(8)));
    }
    rep.count("ndp.areas_judged");
    true
}

/// a stand-alone option area
fn check_ndp_area(rep: &mut Report, st: &mut St, area: &[u8]) -> bool {
    let mut agreed = false;
    rep.evals += 1;
    let want = ctrl::ndp_options(area);
    shell::progress_entry(1710);
    match shell::guarded(|| observe_opts(area, NdpOptionsIterator::from_slice(area))) {
        Ok(got) => {
            agreed = judge_opts(rep, "NdpOptionsIterator", area, 0, &want, &got);
            if want.opts.len() >= 2 && area.len() <= 64 && st.want(rep, 2) {
                rep.sample(format!(
                    "{{\"family\":\"ndp_options\",\"bytes_hex\":{},\"options\":{},\"rejected\":{}}}",
                    jstr(&hex(area)),
                    jstr(
                        &got.opts
                            .iter()
                            .map(|o| format!("{}@{}+{}", o.kind, o.r.0, o.r.1))
                            .collect::<Vec<_>>()
                            .join(",")
                    ),
                    jstr(&format!("{:?}", got.err))
                ));
            }
        }
        Err(p) => note_abnormal(rep, "NdpOptionsIterator", &p),
    }
    // the option header view
    shell::progress_entry(1711);
    match shell::guarded(|| NdpOptionHeader::from_slice(area).map(|(h, rest)| (h.option_type.0, h.length_units, h.byte_len(), rin(area, rest)))) {
        Ok(r) => {
            if area.len() < 2 {
                if r.is_ok() {
                    rep.violation(
                        "ndp_header|accepted_malformed",
                        format!("NdpOptionHeader::from_slice accepts {} bytes", area.len()),
                        area,
                    );
                }
            } else {
                let w = (area[0], area[1], area[1] as usize * 8, (2usize, area.len() - 2));
                match r {
                    Ok(g) if g.0 == w.0 && g.1 == w.1 && g.2 == w.2 && same_r(w.3, g.3) => rep.count("ndp.header_ok"),
                    other => rep.violation(
                        "ndp_header|value",
                        format!("NdpOptionHeader::from_slice: expected {:?}, etherparse {:?}", w, other),
                        area,
                    ),
                }
            }
        }
        Err(p) => note_abnormal(rep, "NdpOptionHeader::from_slice", &p),
    }
    agreed
}

/// the typed option views constructed directly from exactly the bytes `o`
fn check_ndp_direct(rep: &mut Report, o: &[u8]) {
    rep.evals += 1;
    // format rule of a single option that fills `o`
    let shape_ok = o.len() >= 2 && o[1] != 0 && o[1] as usize * 8 == o.len();
    let fixed_ok = |ty: u8| ctrl::fixed_units(ty).map(|u| o.len() >= 2 && o[1] == u).unwrap_or(true);
    shell::progress_entry(1712);
    let got = shell::guarded(|| {
        [
            SourceLinkLayerAddressOptionSlice::from_slice(o).map(|s| rin(o, s.as_bytes())).map_err(|e| err_class(&e)),
            TargetLinkLayerAddressOptionSlice::from_slice(o).map(|s| rin(o, s.as_bytes())).map_err(|e| err_class(&e)),
            PrefixInformationOptionSlice::from_slice(o).map(|s| rin(o, s.as_bytes())).map_err(|e| err_class(&e)),
            RedirectedHeaderOptionSlice::from_slice(o).map(|s| rin(o, s.as_bytes())).map_err(|e| err_class(&e)),
            MtuOptionSlice::from_slice(o).map(|s| rin(o, s.as_bytes())).map_err(|e| err_class(&e)),
            UnknownNdpOptionSlice::from_slice(o).map(|s| rin(o, s.as_bytes())).map_err(|e| err_class(&e)),
        ]
    });
    let got = match got {
        Ok(g) => g,
        Err(p) => {
            note_abnormal(rep, "NdpOption*Slice::from_slice", &p);
            return;
        }
    };
    let names = [
        "SourceLinkLayerAddressOptionSlice",
        "TargetLinkLayerAddressOptionSlice",
        "PrefixInformationOptionSlice",
        "RedirectedHeaderOptionSlice",
        "MtuOptionSlice",
        "UnknownNdpOptionSlice",
    ];
    for (i, g) in got.iter().enumerate() {
        let ty = i as u8 + 1;
        let want_ok = if i < 5 { shape_ok && o[0] == ty && fixed_ok(ty) } else { shape_ok };
        match (want_ok, g) {
            (true, Ok(r)) if same_r((0, o.len()), *r) => {
                rep.count(&format!("ndp.direct_ok.{}", names[i]));
            }
            (false, Err(c)) => {
                rep.count("ndp.direct_rejected");
                rep.sig(&format!("ndp_direct|{}|{}", names[i], c));
            }
            (true, Ok(r)) => rep.violation(
                &format!("ndp_direct|range|{}", names[i]),
                format!("{}::from_slice: as_bytes() @{}+{} of {} bytes", names[i], r.0 as isize, r.1, o.len()),
                o,
            ),
            (true, Err(c)) => rep.violation(
                &format!("ndp_direct|rejected_wellformed|{}|{}", names[i], c),
                format!("{}::from_slice rejects a well-formed option ({})", names[i], c),
                o,
            ),
            (false, Ok(_)) => rep.violation(
                &format!("ndp_direct|accepted_malformed|{}", names[i]),
                format!(
                    "{}::from_slice accepts {} bytes starting with type {:?} units {:?}",
                    names[i],
                    o.len(),
                    o.first(),
                    o.get(1)
                ),
                o,
            ),
        }
    }
}

// ---------------------------------------------------------------------------------------------
// ICMPv6
// ---------------------------------------------------------------------------------------------

fn obs_icmp6_type(t: &Icmpv6Type) -> (&'static str, Vec<F>) {
    use etherparse::icmpv6::*;
    match t {
        Icmpv6Type::Unknown {
            type_u8,
            code_u8,
            bytes5to8,
        } => (
            "Unknown",
            vec![("type", *type_u8 as u128), ("code", *code_u8 as u128), ("bytes5to8", be32a(*bytes5to8))],
        ),
        Icmpv6Type::DestinationUnreachable(c) => {
            // RFC 4443 §3.1
            let code = match c {
                DestUnreachableCode::NoRoute => 0,
                DestUnreachableCode::Prohibited => 1,
                DestUnreachableCode::BeyondScope => 2,
                DestUnreachableCode::Address => 3,
                DestUnreachableCode::Port => 4,
                DestUnreachableCode::SourceAddressFailedPolicy => 5,
                DestUnreachableCode::RejectRoute => 6,
            };
            ("DestinationUnreachable", vec![("code", code)])
        }
        Icmpv6Type::PacketTooBig { mtu } => ("PacketTooBig", vec![("mtu", *mtu as u128)]),
        Icmpv6Type::TimeExceeded(c) => {
            let code = match c {
                TimeExceededCode::HopLimitExceeded => 0,
                TimeExceededCode::FragmentReassemblyTimeExceeded => 1,
            };
            ("TimeExceeded", vec![("code", code)])
        }
        Icmpv6Type::ParameterProblem(h) => {
            // RFC 4443 §3.4, RFC 7112, RFC 8754, RFC 8883
            let code = match h.code {
                ParameterProblemCode::ErroneousHeaderField => 0,
                ParameterProblemCode::UnrecognizedNextHeader => 1,
                ParameterProblemCode::UnrecognizedIpv6Option => 2,
                ParameterProblemCode::Ipv6FirstFragmentIncompleteHeaderChain => 3,
                ParameterProblemCode::SrUpperLayerHeaderError => 4,
                ParameterProblemCode::UnrecognizedNextHeaderByIntermediateNode => 5,
                ParameterProblemCode::ExtensionHeaderTooBig => 6,
                ParameterProblemCode::ExtensionHeaderChainTooLong => 7,
                ParameterProblemCode::TooManyExtensionHeaders => 8,
                ParameterProblemCode::TooManyOptionsInExtensionHeader => 9,
                ParameterProblemCode::OptionTooBig => 10,
            };
            ("ParameterProblem", vec![("code", code), ("pointer", h.pointer as u128)])
        }
        Icmpv6Type::EchoRequest(h) => ("EchoRequest", vec![("id", h.id as u128), ("seq", h.seq as u128)]),
        Icmpv6Type::EchoReply(h) => ("EchoReply", vec![("id", h.id as u128), ("seq", h.seq as u128)]),
        Icmpv6Type::RouterSolicitation => ("RouterSolicitation", vec![]),
        Icmpv6Type::RouterAdvertisement(h) => (
            "RouterAdvertisement",
            vec![
                ("cur_hop_limit", h.cur_hop_limit as u128),
                ("managed", h.managed_address_config as u128),
                ("other", h.other_config as u128),
                ("router_lifetime", h.router_lifetime as u128),
            ],
        ),
        Icmpv6Type::NeighborSolicitation => ("NeighborSolicitation", vec![]),
        Icmpv6Type::NeighborAdvertisement(h) => (
            "NeighborAdvertisement",
            vec![
                ("router", h.router as u128),
                ("solicited", h.solicited as u128),
                ("override", h.r#override as u128),
            ],
        ),
        Icmpv6Type::Redirect => ("Redirect", vec![]),
    }
}

/// structured payload as seen through `Icmpv6PayloadSlice`
struct OPay {
    kind: &'static str,
    f: Vec<F>,
    whole: R,
    /// invoking packet / echo data / option area / raw bytes
    var: R,
    /// `to_payload()`: kind, fields, rest
    owned: Option<(&'static str, Vec<F>, R)>,
    opts: Option<OOpts>,
}

fn a6(a: core::net::Ipv6Addr) -> u128 {
    u128::from_be_bytes(a.octets())
}

fn obs_owned(p: &Icmpv6Payload) -> (&'static str, Vec<F>) {
    match p {
        Icmpv6Payload::RouterSolicitation(_) => ("RouterSolicitation", vec![]),
        Icmpv6Payload::RouterAdvertisement(v) => (
            "RouterAdvertisement",
            vec![("reachable_time", v.reachable_time as u128), ("retrans_timer", v.retrans_timer as u128)],
        ),
        Icmpv6Payload::NeighborSolicitation(v) => ("NeighborSolicitation", vec![("target", a6(v.target_address))]),
        Icmpv6Payload::NeighborAdvertisement(v) => ("NeighborAdvertisement", vec![("target", a6(v.target_address))]),
        Icmpv6Payload::Redirect(v) => (
            "Redirect",
            vec![("target", a6(v.target_address)), ("destination", a6(v.destination_address))],
        ),
        _ => ("?", vec![]),
    }
}

fn obs_pay(base: &[u8], p: &Icmpv6PayloadSlice) -> OPay {
    let whole = rin(base, p.slice());
    let owned = p.to_payload().map(|(o, rest)| {
        let (k, f) = obs_owned(&o);
        (k, f, rin(base, rest))
    });
    let (kind, f, var, opts): (&'static str, Vec<F>, R, Option<OOpts>) = match p {
        Icmpv6PayloadSlice::DestinationUnreachable(v) => ("DestinationUnreachable", vec![], rin(base, v.invoking_packet()), None),
        Icmpv6PayloadSlice::PacketTooBig(v) => ("PacketTooBig", vec![], rin(base, v.invoking_packet()), None),
        Icmpv6PayloadSlice::TimeExceeded(v) => ("TimeExceeded", vec![], rin(base, v.invoking_packet()), None),
        Icmpv6PayloadSlice::ParameterProblem(v) => ("ParameterProblem", vec![], rin(base, v.invoking_packet()), None),
        Icmpv6PayloadSlice::EchoRequest(v) => ("EchoRequest", vec![], rin(base, v.data()), None),
        Icmpv6PayloadSlice::EchoReply(v) => ("EchoReply", vec![], rin(base, v.data()), None),
        Icmpv6PayloadSlice::RouterSolicitation(v) => (
            "RouterSolicitation",
            vec![],
            rin(base, v.options()),
            Some(observe_opts(base, v.options_iterator())),
        ),
        Icmpv6PayloadSlice::RouterAdvertisement(v) => (
            "RouterAdvertisement",
            vec![("reachable_time", v.reachable_time() as u128), ("retrans_timer", v.retrans_timer() as u128)],
            rin(base, v.options()),
            Some(observe_opts(base, v.options_iterator())),
        ),
        Icmpv6PayloadSlice::NeighborSolicitation(v) => (
            "NeighborSolicitation",
            vec![("target", a6(v.target_address()))],
            rin(base, v.options()),
            Some(observe_opts(base, v.options_iterator())),
        ),
        Icmpv6PayloadSlice::NeighborAdvertisement(v) => (
            "NeighborAdvertisement",
            vec![("target", a6(v.target_address()))],
            rin(base, v.options()),
            Some(observe_opts(base, v.options_iterator())),
        ),
        Icmpv6PayloadSlice::Redirect(v) => (
            "Redirect",
            vec![("target", a6(v.target_address())), ("destination", a6(v.destination_address()))],
            rin(base, v.options()),
            Some(observe_opts(base, v.options_iterator())),
        ),
        Icmpv6PayloadSlice::Raw(v) => ("Raw", vec![], rin(base, v), None),
        _ => ("?", vec![], (NOWHERE, 0), None),
    };
    OPay {
        kind,
        f,
        whole,
        var,
        owned,
        opts,
    }
}

struct O6 {
    kind: &'static str,
    f: Vec<F>,
    header_type_same: bool,
    checksum: (u16, u16),
    raw: (u8, u8, [u8; 4]),
    header_lens: [usize; 3],
    type_code: (u8, u8),
    pay: R,
    whole: R,
    /// `Icmpv6Slice::payload_slice()`
    ps: Result<OPay, OLen>,
    /// `Icmpv6Type::payload_slice(payload)` (dispatch on the decoded type): kind, whole, var
    ps_by_type: Result<(&'static str, R, R), OLen>,
}

/// returns the kind if etherparse and the reference agree on the type of an accepted message
fn check_icmp6(rep: &mut Report, st: &mut St, b: &[u8]) -> Option<&'static str> {
    rep.evals += 1;
    let want = ctrl::icmp6(b);
    shell::progress_entry(1719);
    // verdict of payload_slice() without touching the result
    let pre: Option<Result<(), OLen>> = match shell::guarded(|| {
        Icmpv6Slice::from_slice(b)
            .ok()
            .map(|s| s.payload_slice().map(|_| ()).map_err(|e| olen(&e)))
    }) {
        Ok(v) => v,
        Err(p) => {
            note_abnormal(rep, "Icmpv6Slice::payload_slice", &p);
            return None;
        }
    };
    shell::progress_entry(1720);
    let got = shell::guarded(|| {
        let a = match Icmpv6Slice::from_slice(b) {
            Err(e) => Err(olen(&e)),
            Ok(s) => {
                let t = s.icmp_type();
                let h = s.header();
                let (kind, f) = obs_icmp6_type(&t);
                let pay = s.payload();
                Ok(O6 {
                    kind,
                    f,
                    header_type_same: h.icmp_type == t,
                    checksum: (s.checksum(), h.checksum),
                    raw: (s.type_u8(), s.code_u8(), s.bytes5to8()),
                    header_lens: [s.header_len(), t.header_len(), h.header_len()],
                    type_code: (t.type_u8(), t.code_u8()),
                    pay: rin(b, pay),
                    whole: rin(b, s.slice()),
                    ps: s.payload_slice().map(|p| obs_pay(b, &p)).map_err(|e| olen(&e)),
                    ps_by_type: t
                        .payload_slice(pay)
                        .map(|p| {
                            let o = obs_pay(b, &p);
                            (o.kind, o.whole, o.var)
                        })
                        .map_err(|e| olen(&e)),
                })
            }
        };
        let h = match Icmpv6Header::from_slice(b) {
            Err(e) => Err(olen(&e)),
            Ok((h, rest)) => {
                let (kind, f) = obs_icmp6_type(&h.icmp_type);
                Ok((kind, f, h.checksum, rin(b, rest)))
            }
        };
        (a, h)
    });
    let (a, h) = match got {
        Ok(x) => x,
        Err(p) => {
            // an accessor panicked: the verdict taken before is still judged (a payload that is
            // too short for its fixed part but accepted makes the accessors panic)
            if let (Some(v), true) = (&pre, b.len() >= 8) {
                let wp = ctrl::icmp6_payload(b[0], b[1], &b[8..]);
                let wpk = wp.as_ref().ok().map(|p| p.kind);
                let _ = judge_verdict(rep, "icmp6_payload", "Icmpv6Slice::payload_slice", wpk, wp.as_ref().err(), v.as_ref().err(), b);
            }
            note_abnormal(rep, "Icmpv6Slice accessors", &p);
            return None;
        }
    };
    let fam = "icmp6";
    let wk = want.as_ref().ok().map(|m| m.kind);
    if judge_verdict(rep, fam, "Icmpv6Header::from_slice", wk, want.as_ref().err(), h.as_ref().err(), b) {
        let (w, (kind, f, ck, rest)) = (want.as_ref().unwrap(), h.as_ref().unwrap());
        let e = "Icmpv6Header::from_slice";
        let _ = judge_msg(rep, fam, e, (w.kind, &w.f), (kind, f), b)
            && judge_eq(rep, "icmp6|checksum|Icmpv6Header::from_slice", "checksum", ctrl::be16(b, 2) as u16, *ck, b)
            && judge_range(rep, fam, e, "rest", w.kind, (8, b.len() - 8), *rest, b);
    }
    let e = "Icmpv6Slice";
    if !judge_verdict(rep, fam, e, wk, want.as_ref().err(), a.as_ref().err(), b) {
        return None;
    }
    let (w, o) = (want.as_ref().unwrap(), a.as_ref().unwrap());
    let ck = ctrl::be16(b, 2) as u16;
    let ok = judge_msg(rep, fam, e, (w.kind, &w.f), (o.kind, &o.f), b)
        && judge_eq(rep, "icmp6|header_vs_icmp_type", "header().icmp_type == icmp_type()", true, o.header_type_same, b)
        && judge_eq(rep, "icmp6|checksum|Icmpv6Slice", "checksum (slice, header)", (ck, ck), o.checksum, b)
        && judge_eq(
            rep,
            "icmp6|raw_accessors",
            "type_u8/code_u8/bytes5to8",
            (b[0], b[1], [b[4], b[5], b[6], b[7]]),
            o.raw,
            b,
        )
        && judge_eq(rep, &format!("icmp6|type_code_of_type|{}", w.kind), "Icmpv6Type::type_u8/code_u8", (b[0], b[1]), o.type_code, b)
        && judge_eq(rep, &format!("icmp6|header_len|{}", w.kind), "header_len of slice/type/header", [8usize; 3], o.header_lens, b)
        && judge_range(rep, fam, e, "payload", w.kind, (8, b.len() - 8), o.pay, b)
        && judge_range(rep, fam, e, "slice", w.kind, (0, b.len()), o.whole, b);
    if !ok {
        return None;
    }
    if w.kind == "Unknown" {
        rep.count("icmp6.unknown_fallback");
        rep.sig(&format!("icmp6|Unknown|t={}|assigned_type={}", b[0], matches!(b[0], 1..=4 | 128 | 129 | 133..=137)));
    } else {
        rep.count(&format!("icmp6.typed.{}", w.kind));
        rep.sig(&format!("icmp6|{}|c={}|payload={}", w.kind, b[1], b.len() > 8));
    }
    // structured payload
    let agreed = Some(w.kind);
    let wp = ctrl::icmp6_payload(b[0], b[1], &b[8..]);
    let wpk = wp.as_ref().ok().map(|p| p.kind);
    if let Some(v) = &pre {
        // the verdict alone, taken before any accessor ran
        if !judge_verdict(rep, "icmp6_payload", "Icmpv6Slice::payload_slice", wpk, wp.as_ref().err(), v.as_ref().err(), b) {
            return agreed;
        }
    }
    let e2 = "Icmpv6Type::payload_slice";
    if judge_verdict(rep, "icmp6_payload", e2, wpk, wp.as_ref().err(), o.ps_by_type.as_ref().err(), b) {
        let (w, g) = (wp.as_ref().unwrap(), o.ps_by_type.as_ref().unwrap());
        let _ = judge_msg(rep, "icmp6_payload", e2, (w.kind, &[]), (g.0, &[]), b)
            && judge_range(rep, "icmp6_payload", e2, "slice", w.kind, (8, b.len() - 8), g.1, b)
            && judge_range(rep, "icmp6_payload", e2, "variable_part", w.kind, (8 + w.fixed, b.len() - 8 - w.fixed), g.2, b);
    }
    let e = "Icmpv6Slice::payload_slice";
    if wp.is_err() || o.ps.is_err() {
        // (judged by the verdict pre-pass)
        return agreed;
    }
    let (w, g) = (wp.as_ref().unwrap(), o.ps.as_ref().unwrap());
    let var = (8 + w.fixed, b.len() - 8 - w.fixed);
    let ok = judge_msg(rep, "icmp6_payload", e, (w.kind, &w.f), (g.kind, &g.f), b)
        && judge_range(rep, "icmp6_payload", e, "slice", w.kind, (8, b.len() - 8), g.whole, b)
        && judge_range(rep, "icmp6_payload", e, "variable_part", w.kind, var, g.var, b);
    if !ok {
        return agreed;
    }
    // owned form: only neighbour discovery messages have one
    match (&g.owned, w.has_options) {
        (None, false) => {}
        (Some((k, f, rest)), true) => {
            let e = "Icmpv6PayloadSlice::to_payload";
            let ok = judge_msg(rep, "icmp6_payload", e, (w.kind, &w.f), (k, f), b)
                && judge_range(rep, "icmp6_payload", e, "rest", w.kind, var, *rest, b);
            if !ok {
                return agreed;
            }
        }
        (x, _) => {
            rep.violation(
                &format!("icmp6_payload|to_payload_presence|{}", w.kind),
                format!("to_payload() of a {} payload is {:?}", w.kind, x.as_ref().map(|v| v.0)),
                b,
            );
            return agreed;
        }
    }
    rep.count(&format!("icmp6.payload.{}", w.kind));
    rep.sig(&format!("icmp6_payload|{}|variable_part={}", w.kind, var.1.min(1)));
    match (&g.opts, w.has_options) {
        (Some(go), true) => {
            let wo = ctrl::ndp_options(&b[var.0..]);
            let _ = judge_opts(rep, w.kind, b, var.0, &wo, go);
            if wo.opts.len() >= 2 && b.len() <= 96 && st.want(rep, 1) {
                rep.sample(format!(
                    "{{\"family\":\"icmpv6_ndp\",\"bytes_hex\":{},\"decoded\":{},\"fields\":{},\"options_off\":{},\"options\":{},\"rejected\":{}}}",
                    jstr(&hex(b)),
                    jstr(w.kind),
                    jstr(&format!("{} {}", show_f(&o.f), show_f(&g.f))),
                    var.0,
                    jstr(
                        &go.opts
                            .iter()
                            .map(|o| format!("{}@{}+{}", o.kind, o.r.0, o.r.1))
                            .collect::<Vec<_>>()
                            .join(",")
                    ),
                    jstr(&format!("{:?}", go.err))
                ));
            }
        }
        (None, false) => {}
        _ => rep.violation(
            &format!("icmp6_payload|options_presence|{}", w.kind),
            format!("{}: option iterator present: {}", w.kind, g.opts.is_some()),
            b,
        ),
    }
    agreed
}

// ---------------------------------------------------------------------------------------------
// IGMP
// ---------------------------------------------------------------------------------------------

fn obs_igmp_type(t: &IgmpType) -> (&'static str, Vec<F>) {
    match t {
        IgmpType::MembershipQuery(q) => (
            "MembershipQuery",
            vec![("max_resp", q.max_response_time as u128), ("group", be32a(q.group_address.octets))],
        ),
        IgmpType::MembershipQueryWithSources(q) => (
            "MembershipQueryWithSources",
            vec![
                ("max_resp_code", q.max_response_code.0 as u128),
                ("max_resp_value", q.max_response_code.as_10th_secs() as u128),
                ("group", be32a(q.group_address.octets)),
                ("raw_byte_8", q.raw_byte_8 as u128),
                ("flags", q.flags() as u128),
                ("s", q.s_flag() as u128),
                ("qrv", q.qrv().value() as u128),
                ("qqic", q.qqic as u128),
                ("nsrc", q.num_of_sources as u128),
            ],
        ),
        IgmpType::MembershipReportV1(r) => ("MembershipReportV1", vec![("group", be32a(r.group_address.octets))]),
        IgmpType::MembershipReportV2(r) => ("MembershipReportV2", vec![("group", be32a(r.group_address.octets))]),
        IgmpType::LeaveGroup(r) => ("LeaveGroup", vec![("group", be32a(r.group_address.octets))]),
        IgmpType::MembershipReportV3(r) => (
            "MembershipReportV3",
            vec![("flags", u16::from_be_bytes(r.flags) as u128), ("nrec", r.num_of_records as u128)],
        ),
        IgmpType::Unknown(u) => (
            "Unknown",
            vec![
                ("type", u.igmp_type as u128),
                ("byte1", u.raw_byte_1 as u128),
                ("bytes4_7", be32a(u.raw_bytes_4_7)),
            ],
        ),
    }
}

fn check_igmp(rep: &mut Report, st: &mut St, b: &[u8]) -> Option<&'static str> {
    rep.evals += 1;
    let want = ctrl::igmp(b);
    shell::progress_entry(1730);
    let got = shell::guarded(|| match IgmpHeader::from_slice(b) {
        Err(e) => Err(olen(&e)),
        Ok((h, rest)) => {
            let (kind, f) = obs_igmp_type(&h.igmp_type);
            Ok((kind, f, h.checksum, h.header_len(), rin(b, rest)))
        }
    });
    let got = match got {
        Ok(g) => g,
        Err(p) => {
            note_abnormal(rep, "IgmpHeader::from_slice", &p);
            return None;
        }
    };
    let fam = "igmp";
    let e = "IgmpHeader::from_slice";
    let wk = want.as_ref().ok().map(|m| m.kind);
    if !judge_verdict(rep, fam, e, wk, want.as_ref().err(), got.as_ref().err(), b) {
        return None;
    }
    let (w, (kind, f, ck, hl, rest)) = (want.as_ref().unwrap(), got.as_ref().unwrap());
    let ok = judge_msg(rep, fam, e, (w.kind, &w.f), (kind, f), b)
        && judge_eq(rep, "igmp|checksum", "checksum", ctrl::be16(b, 2) as u16, *ck, b)
        && judge_eq(rep, &format!("igmp|header_len|{}", w.kind), "header_len", w.fixed, *hl, b)
        && judge_range(rep, fam, e, "rest", w.kind, (w.fixed, b.len() - w.fixed), *rest, b);
    if !ok {
        return None;
    }
    if w.kind == "Unknown" {
        rep.count("igmp.unknown_fallback");
        rep.sig(&format!("igmp|Unknown|t={}", b[0]));
    } else {
        rep.count(&format!("igmp.typed.{}", w.kind));
        // non-trivial: typed variant; for queries the length class decides the version
        rep.sig(&format!("igmp|{}|rest={}|code_float={}", w.kind, (b.len() - w.fixed).min(1), b[1] >= 128));
        if b.len() > w.fixed && b.len() <= 48 && st.want(rep, 3) {
            rep.sample(format!(
                "{{\"family\":\"igmp\",\"bytes_hex\":{},\"decoded\":{},\"fields\":{},\"rest_off\":{},\"rest_len\":{}}}",
                jstr(&hex(b)),
                jstr(w.kind),
                jstr(&show_f(f)),
                rest.0,
                rest.1
            ));
        }
    }
    if w.kind == "MembershipReportV3" {
        let nrec = w.f.iter().find(|x| x.0 == "nrec").map(|x| x.1 as usize).unwrap_or(0);
        check_group_records(rep, b, 8, nrec);
    }
    Some(w.kind)
}

/// walks the group records of an IGMPv3 report (`ReportGroupRecordV3Header::from_slice` at every
/// record start the reference walk reaches)
fn check_group_records(rep: &mut Report, b: &[u8], mut off: usize, nrec: usize) {
    let mut i = 0usize;
    while i < 40 {
        let rest = &b[off..];
        if i >= nrec && (rest.is_empty() || i > 0) {
            break;
        }
        rep.evals += 1;
        let want = ctrl::igmp_group_record(rest);
        shell::progress_entry(1731);
        let got = shell::guarded(|| match igmp::ReportGroupRecordV3Header::from_slice(rest) {
            Err(e) => Err(olen(&e)),
            Ok((h, r)) => Ok((
                vec![
                    ("record_type", h.record_type.0 as u128),
                    ("aux_data_len", h.aux_data_len as u128),
                    ("nsrc", h.num_of_sources as u128),
                    ("multicast_address", be32a(h.multicast_address)),
                ],
                rin(b, r),
                h.to_bytes(),
            )),
        });
        let got = match got {
            Ok(g) => g,
            Err(p) => {
                note_abnormal(rep, "ReportGroupRecordV3Header::from_slice", &p);
                return;
            }
        };
        let e = "ReportGroupRecordV3Header::from_slice";
        let wm = want.as_ref().map(|x| &x.0);
        if !judge_verdict(rep, "igmp", e, Some("GroupRecord"), wm.as_ref().err().copied(), got.as_ref().err(), b) {
            return;
        }
        let ((w, total), (f, r, bytes)) = (want.as_ref().unwrap(), got.as_ref().unwrap());
        let f: &[F] = f;
        let ok = judge_msg(rep, "igmp", e, (w.kind, &w.f), ("GroupRecord", f), b)
            && judge_range(rep, "igmp", e, "rest", w.kind, (off + 8, b.len() - off - 8), *r, b)
            && judge_eq(rep, "igmp|group_record_to_bytes", "to_bytes()", &rest[..8], &bytes[..], b);
        if !ok {
            return;
        }
        rep.count("igmp.group_records");
        rep.sig(&format!(
            "igmp|GroupRecord|type={}|sources={}|aux={}|complete={}",
            rest[0].min(7),
            (ctrl::be16(rest, 2) as usize).min(2),
            rest[1].min(1),
            off + total <= b.len()
        ));
        if off + total > b.len() {
            rep.count("igmp.group_record_body_truncated");
            return;
        }
        off += total;
        i += 1;
    }
}

// ---------------------------------------------------------------------------------------------
// ARP
// ---------------------------------------------------------------------------------------------

struct OEth {
    op: u16,
    sha: [u8; 6],
    spa: [u8; 4],
    tha: [u8; 6],
    tpa: [u8; 4],
    ips: ([u8; 4], [u8; 4]),
    bytes: [u8; 28],
    back_same: bool,
    back_bytes: Vec<u8>,
}

/// The generic ARP packet compares and hashes by hand (its address buffers are larger than the
/// addresses). Two packets are equal exactly if their encodings are: a packet that differs in one
/// octet of one field is a different packet, equal packets hash equally.
fn arp_eq_fault(p: &ArpPacket) -> Option<String> {
    use std::hash::{Hash, Hasher};
    let h = |x: &ArpPacket| {
        let mut s = std::collections::hash_map::DefaultHasher::new();
        x.hash(&mut s);
        s.finish()
    };
    let bytes = p.to_bytes().to_vec();
    let same = ArpPacket::from_slice(&bytes).ok()?;
    if same != *p || h(&same) != h(p) {
        return Some("a packet decoded from to_bytes() is not equal to / hashes differently from the original".into());
    }
    let (hl, pl) = (p.hw_addr_size() as usize, p.protocol_addr_size() as usize);
    // one position per field (first and last octet of the addresses)
    let mut pos = vec![0usize, 1, 2, 3, 6, 7];
    let mut o = 8;
    for l in [hl, pl, hl, pl] {
        if l > 0 {
            pos.push(o);
            pos.push(o + l - 1);
        }
        o += l;
    }
    for k in pos {
        let mut b2 = bytes.clone();
        b2[k] ^= 0x40;
        let q = match ArpPacket::from_slice(&b2) {
            Ok(q) => q,
            Err(_) => continue,
        };
        if q == *p || *p == q {
            return Some(format!("packets that differ in octet {} ({:02x} vs {:02x}) compare equal", k, bytes[k], b2[k]));
        }
    }
    None
}

struct OArp {
    head: (u16, u16, u8, u8, u16),
    addrs: [R; 4],
    whole: R,
    /// `to_packet()`: header fields, addresses, to_bytes(), packet_len()
    pkt_head: (u16, u16, u8, u8, u16),
    pkt_addrs: [Vec<u8>; 4],
    pkt_bytes: Vec<u8>,
    pkt_len: usize,
    /// `ArpPacket::from_slice` gives the same packet
    pkt_from_slice_same: Option<bool>,
    /// `==` / `Hash` of the owned packet against packets that differ in one octet
    eq_fault: Option<String>,
    eth: Result<OEth, String>,
}

/// true if etherparse and the reference agree on an accepted packet
fn check_arp(rep: &mut Report, st: &mut St, b: &[u8]) -> bool {
    rep.evals += 1;
    let want = ctrl::arp(b);
    shell::progress_entry(1740);
    let got = shell::guarded(|| match ArpPacketSlice::from_slice(b) {
        Err(e) => Err((olen(&e), ArpPacket::from_slice(b).is_err())),
        Ok(s) => {
            let p = s.to_packet();
            let eth = match p.try_eth_ipv4() {
                Ok(e) => {
                    let back = e.to_arp_packet();
                    Ok(OEth {
                        op: e.operation.0,
                        sha: e.sender_mac,
                        spa: e.sender_ipv4,
                        tha: e.target_mac,
                        tpa: e.target_ipv4,
                        ips: (e.sender_ipv4_addr().octets(), e.target_ipv4_addr().octets()),
                        bytes: e.to_bytes(),
                        back_same: back == p,
                        back_bytes: back.to_bytes().to_vec(),
                    })
                }
                Err(e) => Err(match e {
                    err::arp::ArpEthIpv4FromError::NonMatchingHwType(t) => format!("hrd={}", t.0),
                    err::arp::ArpEthIpv4FromError::NonMatchingProtocolType(t) => format!("pro={}", t.0),
                    err::arp::ArpEthIpv4FromError::NonMatchingHwAddrSize(n) => format!("hln={}", n),
                    err::arp::ArpEthIpv4FromError::NonMatchingProtoAddrSize(n) => format!("pln={}", n),
                }),
            };
            Ok(OArp {
                head: (
                    s.hw_addr_type().0,
                    s.proto_addr_type().0,
                    s.hw_addr_size(),
                    s.proto_addr_size(),
                    s.operation().0,
                ),
                addrs: [
                    rin(b, s.sender_hw_addr()),
                    rin(b, s.sender_protocol_addr()),
                    rin(b, s.target_hw_addr()),
                    rin(b, s.target_protocol_addr()),
                ],
                whole: rin(b, s.slice()),
                pkt_head: (
                    p.hw_addr_type.0,
                    p.proto_addr_type.0,
                    p.hw_addr_size(),
                    p.protocol_addr_size(),
                    p.operation.0,
                ),
                pkt_addrs: [
                    p.sender_hw_addr().to_vec(),
                    p.sender_protocol_addr().to_vec(),
                    p.target_hw_addr().to_vec(),
                    p.target_protocol_addr().to_vec(),
                ],
                pkt_bytes: p.to_bytes().to_vec(),
                pkt_len: p.packet_len(),
                pkt_from_slice_same: ArpPacket::from_slice(b).ok().map(|q| q == p),
                eq_fault: arp_eq_fault(&p),
                eth,
            })
        }
    });
    let got = match got {
        Ok(g) => g,
        Err(p) => {
            note_abnormal(rep, "ArpPacketSlice::from_slice", &p);
            return false;
        }
    };
    let fam = "arp";
    let e = "ArpPacketSlice::from_slice";
    let ge = got.as_ref().err().map(|x| &x.0);
    if !judge_verdict(rep, fam, e, Some("Arp"), want.as_ref().err(), ge, b) {
        if let Err((_, owned_rejects)) = &got {
            if !owned_rejects {
                rep.violation(
                    "arp|verdict|ArpPacket::from_slice_vs_ArpPacketSlice",
                    "ArpPacketSlice::from_slice rejects but ArpPacket::from_slice accepts".to_string(),
                    b,
                );
            }
        }
        return false;
    }
    let (w, o) = (want.as_ref().unwrap(), got.as_ref().unwrap());
    let wa = [w.sha, w.spa, w.tha, w.tpa];
    let names = ["sender_hw_addr", "sender_protocol_addr", "target_hw_addr", "target_protocol_addr"];
    let whead = (w.hrd, w.pro, w.hln, w.pln, w.op);
    if !judge_eq(rep, "arp|field|ArpPacketSlice|fixed_part", "hrd/pro/hln/pln/op", whead, o.head, b) {
        return false;
    }
    for i in 0..4 {
        if !judge_range(rep, fam, "ArpPacketSlice", names[i], "Arp", wa[i], o.addrs[i], b) {
            return false;
        }
    }
    if !judge_range(rep, fam, "ArpPacketSlice", "slice", "Arp", (0, w.total), o.whole, b) {
        return false;
    }
    // owned form
    if !judge_eq(rep, "arp|field|ArpPacket|fixed_part", "to_packet(): hrd/pro/hln/pln/op", whead, o.pkt_head, b) {
        return false;
    }
    for i in 0..4 {
        let wbytes = &b[wa[i].0..wa[i].0 + wa[i].1];
        if !judge_eq(rep, &format!("arp|field|ArpPacket|{}", names[i]), names[i], wbytes, &o.pkt_addrs[i][..], b) {
            return false;
        }
    }
    let ok = judge_eq(rep, "arp|ArpPacket|to_bytes", "to_packet().to_bytes()", &b[..w.total], &o.pkt_bytes[..], b)
        && judge_eq(rep, "arp|ArpPacket|packet_len", "packet_len()", w.total, o.pkt_len, b)
        && judge_eq(
            rep,
            "arp|ArpPacket|from_slice_vs_to_packet",
            "ArpPacket::from_slice == ArpPacketSlice::to_packet",
            Some(true),
            o.pkt_from_slice_same,
            b,
        );
    if !ok {
        return false;
    }
    if let Some(f) = &o.eq_fault {
        rep.violation("arp|ArpPacket|eq_hash", format!("ArpPacket == / Hash: {}", f), b);
        return false;
    }
    rep.count("arp.eq_distinguishes_every_field");
    rep.count("arp.ok");
    if b.len() > w.total {
        rep.count("arp.trailing_bytes_cut");
    }
    // Ethernet / IPv4 view
    match (&o.eth, w.eth_ipv4) {
        (Ok(v), true) => {
            let sl = |r: R| &b[r.0..r.0 + r.1];
            let ok = judge_eq(rep, "arp|eth_ipv4|operation", "operation", w.op, v.op, b)
                && judge_eq(rep, "arp|eth_ipv4|sender_mac", "sender_mac", sl(w.sha), &v.sha[..], b)
                && judge_eq(rep, "arp|eth_ipv4|sender_ipv4", "sender_ipv4", sl(w.spa), &v.spa[..], b)
                && judge_eq(rep, "arp|eth_ipv4|target_mac", "target_mac", sl(w.tha), &v.tha[..], b)
                && judge_eq(rep, "arp|eth_ipv4|target_ipv4", "target_ipv4", sl(w.tpa), &v.tpa[..], b)
                && judge_eq(rep, "arp|eth_ipv4|ip_addr_accessors", "sender/target_ipv4_addr()", (v.spa, v.tpa), v.ips, b)
                && judge_eq(rep, "arp|eth_ipv4|to_bytes", "ArpEthIpv4Packet::to_bytes()", &b[..28], &v.bytes[..], b)
                && judge_eq(rep, "arp|eth_ipv4|to_arp_packet", "to_arp_packet() == original packet", true, v.back_same, b)
                && judge_eq(rep, "arp|eth_ipv4|to_arp_packet_bytes", "to_arp_packet().to_bytes()", &b[..28], &v.back_bytes[..], b);
            if ok {
                rep.count("arp.eth_ipv4.ok");
                rep.sig(&format!("arp|eth_ipv4|ok|op={}|trailing={}", w.op.min(3), b.len() > 28));
                if st.want(rep, 4) {
                    rep.sample(format!(
                        "{{\"family\":\"arp\",\"bytes_hex\":{},\"eth_ipv4\":true,\"operation\":{},\"sender_mac\":{},\"sender_ipv4\":{},\"target_mac\":{},\"target_ipv4\":{}}}",
                        jstr(&shown(b)),
                        v.op,
                        jstr(&hex(&v.sha)),
                        jstr(&hex(&v.spa)),
                        jstr(&hex(&v.tha)),
                        jstr(&hex(&v.tpa))
                    ));
                }
            }
        }
        (Err(why), false) => {
            // the error must name a field that really differs from the Ethernet/IPv4 instance,
            // with its value
            let truthful = (w.hrd != 1 && *why == format!("hrd={}", w.hrd))
                || (w.pro != 0x0800 && *why == format!("pro={}", w.pro))
                || (w.hln != 6 && *why == format!("hln={}", w.hln))
                || (w.pln != 4 && *why == format!("pln={}", w.pln));
            if truthful {
                let field = why.split('=').next().unwrap_or("");
                rep.count(&format!("arp.eth_ipv4.refused.{}", field));
                rep.sig(&format!("arp|eth_ipv4|refused|{}", field));
            } else {
                rep.violation(
                    "arp|eth_ipv4|untruthful_error",
                    format!(
                        "try_eth_ipv4 fails with {} but the packet has hrd {} pro {:#x} hln {} pln {}",
                        why, w.hrd, w.pro, w.hln, w.pln
                    ),
                    b,
                );
            }
        }
        (Ok(_), false) => rep.violation(
            "arp|eth_ipv4|accepted_other_instance",
            format!(
                "try_eth_ipv4 succeeds for hrd {} pro {:#x} hln {} pln {}",
                w.hrd, w.pro, w.hln, w.pln
            ),
            b,
        ),
        (Err(why), true) => rep.violation(
            "arp|eth_ipv4|refused_eth_ipv4",
            format!("try_eth_ipv4 fails with {} for an Ethernet/IPv4 packet", why),
            b,
        ),
    }
    rep.sig(&format!(
        "arp|ok|hln={}|pln={}|trailing={}",
        (w.hln as usize).min(7),
        (w.pln as usize).min(5),
        b.len() > w.total
    ));
    true
}

// ---------------------------------------------------------------------------------------------
// workloads
// ---------------------------------------------------------------------------------------------

const PAIRS: u64 = 65_536;
const IGMP_LENS: u64 = 41;

fn msg(rng: &mut Prng, t: u8, c: u8, len: usize) -> Vec<u8> {
    let mut b = rng.bytes(len);
    if len > 0 {
        b[0] = t;
    }
    if len > 1 {
        b[1] = c;
    }
    b
}

/// a group record list: mostly consistent, sometimes cut
fn group_records(rng: &mut Prng, n: usize) -> Vec<u8> {
    let mut b = Vec::new();
    for _ in 0..n {
        let nsrc = rng.below(4) as usize;
        let aux = if rng.chance(1, 4) { rng.range(1, 2) as usize } else { 0 };
        b.push(if rng.chance(3, 4) { rng.range(1, 6) as u8 } else { rng.u8() });
        b.push(aux as u8);
        b.extend_from_slice(&(nsrc as u16).to_be_bytes());
        b.extend_from_slice(&rng.bytes(4 + 4 * nsrc + 4 * aux));
    }
    b
}

impl Monitor for C17 {
    fn engines(&self, tier: Tier) -> Vec<(&'static str, u64)> {
        vec![
            // exhaustive over (type, code); one round = 65,536 cases
            ("icmp4_all", PAIRS * tier.pick(16, 640)),
            ("icmp6_all", PAIRS * tier.pick(16, 640)),
            ("icmp4_rand", tier.pick(8_000_000, 320_000_000)),
            ("icmp6_rand", tier.pick(10_000_000, 400_000_000)),
            // exhaustive over (option type, length units)
            ("ndp_opt_all", PAIRS * tier.pick(8, 320)),
            ("ndp_opt_rand", tier.pick(10_000_000, 400_000_000)),
            // exhaustive over (type, length 0..=40)
            ("igmp_all", 256 * IGMP_LENS * tier.pick(64, 640)),
            ("igmp_rand", tier.pick(6_000_000, 240_000_000)),
            // exhaustive over (hlen, plen)
            ("arp_all", PAIRS * tier.pick(8, 320)),
            ("arp_eth", tier.pick(6_000_000, 240_000_000)),
            ("api", tier.pick(20_000, 800_000)),
        ]
    }

    fn run_case(&mut self, engine: &str, idx: u64, rng: &mut Prng, rep: &mut Report) {
        if engine == "api" {
            super::api::c17(rep, rng);
            return;
        }
        let st = &mut self.st;
        match engine {
            "icmp4_all" => {
                let v = idx % PAIRS;
                let (t, c) = ((v >> 8) as u8, v as u8);
                // every header truncation, the timestamp threshold, a longer message
                let mut lens: Vec<usize> = (0..=9).collect();
                lens.extend_from_slice(&[18, 19, 20, 21, 22]);
                lens.push(rng.range(8, 64) as usize);
                lens.push(rng.range(8, 300) as usize);
                for len in lens {
                    match check_icmp4(rep, st, &msg(rng, t, c, len)) {
                        Some("Unknown") => st.v4_unknown.set(v as usize),
                        Some(_) => st.v4_typed.set(v as usize),
                        None => {}
                    }
                }
            }
            "icmp6_all" => {
                let v = idx % PAIRS;
                let (t, c) = ((v >> 8) as u8, v as u8);
                // header truncations, the fixed part sizes of the neighbour discovery messages
                // (8 + 8, 8 + 16, 8 + 32) +- 2
                let mut lens: Vec<usize> = (0..=10).collect();
                lens.extend_from_slice(&[14, 15, 16, 17, 18, 22, 23, 24, 25, 26, 38, 39, 40, 41, 42]);
                lens.push(rng.range(8, 300) as usize);
                for len in lens {
                    match check_icmp6(rep, st, &msg(rng, t, c, len)) {
                        Some("Unknown") => st.v6_unknown.set(v as usize),
                        Some(_) => st.v6_typed.set(v as usize),
                        None => {}
                    }
                }
                // the same (type, code) in front of a grammar generated neighbour discovery body
                let mut b = vec![t, c];
                b.extend_from_slice(&rng.bytes(6));
                let shape = if (133..=137).contains(&t) { t } else { *rng.pick(&[133u8, 134, 135, 136, 137]) };
                b.extend_from_slice(&headers::ndp_body(rng, shape));
                check_icmp6(rep, st, &b);
            }
            "icmp4_rand" => {
                let t = if rng.chance(3, 4) {
                    *rng.pick(&[0u8, 3, 3, 3, 4, 5, 5, 8, 9, 10, 11, 11, 12, 12, 13, 13, 14, 14, 15, 16, 17, 18])
                } else {
                    rng.u8()
                };
                let c = match rng.below(10) {
                    0..=3 => 0,
                    4..=7 => rng.below(17) as u8,
                    _ => rng.u8_corner(),
                };
                let len = match rng.below(10) {
                    0 => rng.below(8) as usize,
                    1 => 8,
                    2 | 3 => 20,
                    4 => rng.range(17, 23) as usize,
                    5..=7 => rng.range(8, 80) as usize,
                    _ => rng.range(8, 300) as usize,
                };
                let _ = check_icmp4(rep, st, &msg(rng, t, c, len));
            }
            "icmp6_rand" => {
                let t = if rng.chance(4, 5) {
                    *rng.pick(&[
                        1u8, 2, 3, 4, 4, 128, 129, 130, 131, 132, 133, 133, 134, 134, 134, 135, 135, 136, 136, 137, 137, 137, 138,
                        141, 142, 160, 161,
                    ])
                } else {
                    rng.u8()
                };
                let c = match rng.below(10) {
                    0..=6 => 0,
                    7 | 8 => rng.below(13) as u8,
                    _ => rng.u8_corner(),
                };
                let mut b = vec![t, c];
                b.extend_from_slice(&rng.bytes(6));
                if (133..=137).contains(&t) && rng.chance(7, 8) {
                    b.extend_from_slice(&headers::ndp_body(rng, t));
                } else {
                    let n = rng.below(120) as usize;
                    b.extend_from_slice(&rng.bytes(n));
                }
                if rng.chance(1, 8) {
                    b.truncate(rng.usize_below(b.len() + 1));
                }
                check_icmp6(rep, st, &b);
            }
            "ndp_opt_all" => {
                let v = idx % PAIRS;
                let (ty, units) = ((v >> 8) as u8, v as u8);
                let l = units as usize * 8;
                let mut lens: Vec<usize> = vec![0, 1, 2, 3, l + 1, l + 2, l + 8, l + 16, l + rng.range(3, 40) as usize];
                if l >= 1 {
                    lens.push(l - 1);
                    lens.push(l);
                }
                if l >= 8 {
                    lens.push(l - 2);
                    lens.push(l - 8);
                }
                // in front: nothing, or a valid source link-layer address option
                let front: &[u8] = if rng.bool() { &[] } else { &[1, 1, 2, 0, 0, 0, 0, 9] };
                for len in lens {
                    let mut o = msg(rng, ty, units, len);
                    if len == l + 8 && l > 0 {
                        // a valid MTU option behind it
                        o[l..l + 8].copy_from_slice(&[5, 1, 0, 0, 0, 0, 5, 220]);
                    }
                    check_ndp_direct(rep, &o);
                    let mut area = front.to_vec();
                    area.extend_from_slice(&o);
                    if check_ndp_area(rep, st, &area) && len == l && l > 0 {
                        // the option exactly filling the rest of the area: judged alike
                        st.ndp_pairs.set(v as usize);
                    }
                }
            }
            "ndp_opt_rand" => {
                let area = match rng.below(10) {
                    0..=5 => headers::ndp_options(rng, 6),
                    6 | 7 => {
                        // grammar output, damaged
                        let mut a = headers::ndp_options(rng, 5);
                        if !a.is_empty() {
                            match rng.below(3) {
                                0 => a.truncate(rng.usize_below(a.len())),
                                1 => {
                                    let i = rng.usize_below(a.len());
                                    a[i] = rng.u8_corner();
                                }
                                _ => {
                                    let n = rng.range(1, 9) as usize;
                                    a.extend_from_slice(&rng.bytes(n));
                                }
                            }
                        }
                        a
                    }
                    _ => {
                        // small type / length bytes in random positions
                        let n = rng.below(72) as usize;
                        let mut a = rng.bytes(n);
                        let mut i = 0;
                        while i + 1 < a.len() {
                            a[i] = rng.below(8) as u8;
                            a[i + 1] = rng.below(6) as u8;
                            i += 8 * rng.range(1, 3) as usize;
                        }
                        a
                    }
                };
                check_ndp_area(rep, st, &area);
                if rng.chance(1, 4) && area.len() >= 2 {
                    let n = (area[1] as usize * 8).min(area.len());
                    check_ndp_direct(rep, &area[..n]);
                }
                if rng.chance(1, 4) {
                    // one option for the typed constructors: natural size of a type, the type and
                    // length bytes right or slightly wrong
                    let k = rng.range(1, 6) as u8;
                    let units: u8 = match k {
                        3 => 4,
                        5 => 1,
                        _ => rng.range(1, 5) as u8,
                    };
                    let mut o = rng.bytes(units as usize * 8);
                    o[0] = if rng.chance(3, 4) { k } else { rng.below(8) as u8 };
                    o[1] = if rng.chance(1, 2) { units } else { rng.below(7) as u8 };
                    match rng.below(8) {
                        0 => o.truncate(rng.usize_below(o.len())),
                        1 => o.push(0),
                        _ => {}
                    }
                    check_ndp_direct(rep, &o);
                }
            }
            "igmp_all" => {
                let v = idx % (256 * IGMP_LENS);
                let (t, len) = ((v / IGMP_LENS) as u8, (v % IGMP_LENS) as usize);
                for _ in 0..3 {
                    let byte1 = rng.u8_corner();
                    let mut b = msg(rng, t, byte1, len);
                    if t == 0x22 && len >= 8 && rng.bool() {
                        // a small record count so that the records get walked
                        b[6] = 0;
                        b[7] = rng.below(4) as u8;
                    }
                    if check_igmp(rep, st, &b).is_some() {
                        st.igmp_types.set(v as usize);
                    }
                }
            }
            "igmp_rand" => {
                let b = match rng.below(4) {
                    0 => {
                        let n = rng.range(1, 64) as usize;
                        headers::igmp_message(rng, n)
                    }
                    1 => {
                        // v3 query with sources, sometimes cut into the 9..11 byte window
                        let nsrc = rng.below(5) as usize;
                        let mut b = vec![0x11, rng.u8_corner()];
                        b.extend_from_slice(&rng.bytes(6));
                        b.push(rng.u8());
                        b.push(rng.u8_corner());
                        b.extend_from_slice(&(nsrc as u16).to_be_bytes());
                        b.extend_from_slice(&rng.bytes(4 * nsrc));
                        if rng.chance(1, 3) {
                            b.truncate(rng.range(6, 13) as usize);
                        }
                        b
                    }
                    _ => {
                        // v3 report with group records
                        let n = rng.below(5) as usize;
                        let announced = if rng.chance(1, 6) { rng.below(8) as usize } else { n };
                        let mut b = vec![0x22, rng.u8_corner()];
                        b.extend_from_slice(&rng.bytes(4));
                        b.extend_from_slice(&(announced as u16).to_be_bytes());
                        b.extend_from_slice(&group_records(rng, n));
                        if rng.chance(1, 5) {
                            b.truncate(rng.usize_below(b.len() + 1));
                        }
                        b
                    }
                };
                check_igmp(rep, st, &b);
            }
            "arp_all" => {
                let v = idx % PAIRS;
                let (h, p) = ((v >> 8) as usize, (v & 0xff) as usize);
                let need = 8 + 2 * h + 2 * p;
                let mut lens = vec![need, need + 1, need + rng.range(2, 40) as usize, rng.below(8) as usize];
                if need > 8 {
                    lens.push(need - 1);
                    lens.push(rng.range(8, need as u64 - 1) as usize);
                }
                for len in lens {
                    let mut b = rng.bytes(len);
                    if rng.chance(1, 2) && len >= 4 {
                        b[..4].copy_from_slice(&[0, 1, 8, 0]);
                    }
                    if len > 4 {
                        b[4] = h as u8;
                    }
                    if len > 5 {
                        b[5] = p as u8;
                    }
                    if check_arp(rep, st, &b) && len == need {
                        st.arp_pairs.set(v as usize);
                    }
                }
            }
            "arp_eth" => {
                let hrd: u16 = if rng.chance(7, 8) { 1 } else { rng.u16_corner() };
                let pro: u16 = if rng.chance(7, 8) { 0x0800 } else { *rng.pick(&[0x86ddu16, 0x0806, 0, 0xffff, 0x0801]) };
                let h: u8 = if rng.chance(9, 10) { 6 } else { rng.below(10) as u8 };
                let p: u8 = if rng.chance(9, 10) { 4 } else { *rng.pick(&[0u8, 3, 5, 6, 16]) };
                let mut b = Vec::new();
                b.extend_from_slice(&hrd.to_be_bytes());
                b.extend_from_slice(&pro.to_be_bytes());
                b.push(h);
                b.push(p);
                b.extend_from_slice(&(if rng.chance(3, 4) { rng.range(1, 4) as u16 } else { rng.u16_corner() }).to_be_bytes());
                b.extend_from_slice(&rng.bytes(2 * h as usize + 2 * p as usize));
                match rng.below(6) {
                    0 => b.truncate(rng.usize_below(b.len() + 1)),
                    // Ethernet padding to the minimum frame size and beyond
                    1 | 2 => {
                        let n = rng.range(1, 24) as usize;
                        b.extend_from_slice(&rng.bytes(n));
                    }
                    _ => {}
                }
                check_arp(rep, st, &b);
            }
            _ => {}
        }
    }

    fn finish(&mut self, rep: &mut Report) {
        // coverage of the exhaustive engines (every shard owns its own part of the enumeration, the
        // sums over all shards are: 29 + 65,507 ICMPv4 pairs, 28 + 65,508 ICMPv6 pairs, 65,536
        // 65,280 option (type, units >= 1) pairs judged alike (accepted, or rejected for the wrong
        // size of a fixed size option) when the option exactly fills the rest of the area,
        // 256 * 33 - 3 = 8,445 accepted IGMP (type, length 8..=40) pairs (queries of 9..11 bytes
        // are rejected), 65,536 ARP (hlen, plen) pairs accepted at exactly their length)
        rep.add("exhaustive.icmp4.typed_pairs", self.st.v4_typed.count());
        rep.add("exhaustive.icmp4.unknown_pairs", self.st.v4_unknown.count());
        rep.add("exhaustive.icmp6.typed_pairs", self.st.v6_typed.count());
        rep.add("exhaustive.icmp6.unknown_pairs", self.st.v6_unknown.count());
        rep.add("exhaustive.ndp.type_units_pairs", self.st.ndp_pairs.count());
        rep.add("exhaustive.igmp.type_len_pairs_accepted", self.st.igmp_types.count());
        rep.add("exhaustive.arp.hlen_plen_pairs", self.st.arp_pairs.count());
        // literal vectors and an encoder/decoder round trip for the reference itself
        let bad = ctrl::self_check();
        if bad.is_empty() {
            rep.count("selfcheck.reference_vectors_ok");
        }
        for x in bad {
            rep.selfcheck_fail(format!("refmodel::ctrl disagrees with its literal vector: {}", x));
        }
    }
}
