//! Helpers shared by the packet level monitors (C01–C07).

use crate::gen::Case;
use crate::neutral::*;
use crate::observe::entry::{self, Family};
use crate::observe::whole::Whole;
use crate::observe::Cx;
use crate::refmodel::pkt::{self, ExtMode, Mode, RDecoded, Start};
use crate::report::{hex, jstr, Report};
use crate::shell::{self, Panicked};

pub fn start_name(s: Start) -> String {
    match s {
        Start::Eth => "eth".into(),
        Start::Sll => "sll".into(),
        Start::EtherType(t) => format!("ety{:04x}", t),
        Start::Ip => "ip".into(),
        Start::Ipv4 => "ipv4".into(),
        Start::Ipv6 => "ipv6".into(),
        Start::Transport(n) => format!("transport{}", n),
        Start::Ext(n) => format!("ext{}", n),
        Start::Arp => "arp".into(),
    }
}

pub fn entry_id(f: Family, s: Start) -> u64 {
    let a = match f {
        Family::Sliced => 1,
        Family::LaxSliced => 2,
        Family::Headers => 3,
        Family::LaxHeaders => 4,
    };
    let b = match s {
        Start::Eth => 1,
        Start::Sll => 2,
        Start::EtherType(_) => 3,
        Start::Ip => 4,
        Start::Ipv4 => 5,
        Start::Ipv6 => 6,
        _ => 7,
    };
    a * 16 + b
}

pub struct Decoded {
    pub whole: Whole,
    pub bad_containment: Vec<String>,
    pub sub_slices: u64,
    pub accessor_calls: u64,
}

/// decode with a whole-packet family under the panic shell
pub fn run_family(f: Family, s: Start, input: &[u8], deep: bool) -> Result<Decoded, Panicked> {
    shell::progress_entry(entry_id(f, s));
    shell::guarded(|| {
        let mut cx = Cx::new(input);
        let whole = entry::decode(f, s, input, &mut cx, deep);
        Decoded {
            whole,
            bad_containment: std::mem::take(&mut cx.bad),
            sub_slices: cx.sub_slices,
            accessor_calls: cx.accessor_calls,
        }
    })
}

/// a behavioural monitor cannot judge a case in which the decoder panicked: that is a C01/C02
/// event and reported there (DESIGN §2.8)
pub fn note_abnormal(rep: &mut Report, what: &str, p: &Panicked) {
    rep.count("skipped_abnormal");
    rep.note(&format!("NOTE abnormal termination in {} ({}) — judged by C01/C02", what, p.location()));
}

/// R must reproduce what the generator intended for clean packets (who checks the checker)
pub fn recipe_selfcheck(rep: &mut Report, case: &Case, r: &RDecoded) {
    if let Some(recipe) = &case.recipe {
        rep.count("selfcheck.recipe_cases");
        let got: Vec<(Kind, usize)> = r
            .layers
            .iter()
            .filter(|l| l.kind != Kind::EtherStart)
            .map(|l| (l.kind, l.off))
            .collect();
        // extension headers are listed behind their IP layer in both
        let mut want = recipe.clone();
        want.sort_by_key(|x| x.1);
        let mut got_sorted = got.clone();
        got_sorted.sort_by_key(|x| x.1);
        if r.fault.is_some() || want != got_sorted {
            rep.selfcheck_fail(format!(
                "R != recipe for {} [{}]: recipe={:?} R={:?} fault={:?} bytes={}",
                start_name(case.start),
                case.desc,
                want,
                got_sorted,
                r.fault.as_ref().map(|f| f.describe()),
                hex(&case.bytes)
            ));
        } else {
            rep.count("selfcheck.recipe_agree");
        }
    }
}

pub fn rdecode(bytes: &[u8], start: Start, mode: Mode, ext: ExtMode) -> RDecoded {
    pkt::decode(bytes, start, mode, ext)
}

pub fn sample(case_desc: &str, start: Start, bytes: &[u8], observed: &str) -> String {
    let shown = if bytes.len() > 96 { &bytes[..96] } else { bytes };
    format!(
        "{{\"start\":{},\"generated\":{},\"len\":{},\"bytes_hex\":{},\"observed\":{}}}",
        jstr(&start_name(start)),
        jstr(case_desc),
        bytes.len(),
        jstr(&hex(shown)),
        jstr(observed)
    )
}

/// is this behaviour non-trivial: got past the first header, or failed behind the first header
pub fn nontrivial(out: &NOut) -> bool {
    let real_layers = out.layers.iter().filter(|l| l.kind != Kind::EtherStart).count();
    real_layers >= 2 || (real_layers >= 1 && (out.err.is_some() || out.stop.is_some())) || out.stop.is_some()
}

/// brings the extension header layers of a (struct mode) walk into the canonical order in which
/// the adapters list the fields of `Ipv6Extensions` (the struct does not keep the wire order)
pub fn canonical_ext_order(layers: &[NLayer]) -> Vec<NLayer> {
    let mut out: Vec<NLayer> = Vec::with_capacity(layers.len());
    let mut i = 0;
    while i < layers.len() {
        let is_ext = |k: Kind| matches!(k, Kind::ExtHbh | Kind::ExtDest | Kind::ExtRoute | Kind::ExtFrag | Kind::ExtAh);
        if !is_ext(layers[i].kind) {
            out.push(layers[i].clone());
            i += 1;
            continue;
        }
        let mut j = i;
        let mut ranked: Vec<(u8, NLayer)> = Vec::new();
        let mut route_seen = false;
        while j < layers.len() && is_ext(layers[j].kind) {
            let rank = match layers[j].kind {
                Kind::ExtHbh => 0,
                Kind::ExtDest => {
                    if route_seen {
                        3
                    } else {
                        1
                    }
                }
                Kind::ExtRoute => {
                    route_seen = true;
                    2
                }
                Kind::ExtFrag => 4,
                _ => 5,
            };
            ranked.push((rank, layers[j].clone()));
            j += 1;
        }
        ranked.sort_by_key(|x| x.0);
        out.extend(ranked.into_iter().map(|x| x.1));
        i = j;
    }
    out
}
