//! C03 — strict packet slicing matches the wire formats for every byte string.
//!
//! Oracle: the reference decoder R (refmodel::pkt, strict mode). Exact `LenError` numbers are
//! C07's job; here the verdict (Ok / Err class and layer family) and, for accepted inputs, every
//! layer, field value, byte range, fragmentation flag and payload length source are compared.

use super::common::*;
use super::{Monitor, Tier};
use crate::gen::{self, Case, GenOpts, Lie, StartSel};
use crate::neutral::*;
use crate::observe::entry::Family;
use crate::observe::{self, Cx};
use crate::prng::Prng;
use crate::refmodel::pkt::{ety, ExtMode, Mode, RDecoded, Start};
use crate::report::Report;
use crate::shell;
use etherparse::*;

pub struct C03 {}

impl C03 {
    pub fn new() -> C03 {
        C03 {}
    }
}

/// compare a strict etherparse result with R; returns a signature for the evidence
pub fn judge_strict(
    rep: &mut Report,
    prop_sig_prefix: &str,
    entry: &str,
    bytes: &[u8],
    r: &RDecoded,
    e: &NOut,
) {
    match (&r.fault, &e.err) {
        (None, None) => {
            if let Some((sig, detail)) = diff_layers("reference", &r.layers, "etherparse", &e.layers) {
                rep.violation(
                    &format!("{}differs|{}", prop_sig_prefix, sig),
                    format!("{}: {}", entry, detail),
                    bytes,
                );
            } else {
                rep.count("agree.ok");
            }
        }
        (Some(f), Some(err)) => {
            if f.accepts_class(err) {
                rep.count("agree.err");
            } else {
                rep.violation(
                    &format!("{}wrong_error|{:?}|{}", prop_sig_prefix, f.kind, err.class()),
                    format!(
                        "{}: rejected with {:?} but the bytes are faulty in a different way: {}",
                        entry,
                        err,
                        f.describe()
                    ),
                    bytes,
                );
            }
        }
        (Some(f), None) => {
            rep.violation(
                &format!("{}accepts_faulty|{:?}", prop_sig_prefix, f.kind),
                format!(
                    "{}: accepted (layers {}) although: {}",
                    entry,
                    e.kinds(),
                    f.describe()
                ),
                bytes,
            );
        }
        (None, Some(err)) => {
            rep.violation(
                &format!("{}rejects_wellformed|{}", prop_sig_prefix, err.class()),
                format!(
                    "{}: rejected with {:?} although the wire formats accept the bytes (reference layers {})",
                    entry,
                    err,
                    r.layers.iter().map(|l| format!("{:?}@{}", l.kind, l.off)).collect::<Vec<_>>().join(">")
                ),
                bytes,
            );
        }
    }
}

fn r_nontrivial(r: &RDecoded) -> bool {
    let real = r.layers.iter().filter(|l| l.kind != Kind::EtherStart).count();
    real >= 2 || (real >= 1 && r.fault.is_some())
}

impl C03 {
    fn whole(&mut self, rep: &mut Report, case: &Case) {
        let r = rdecode(&case.bytes, case.start, Mode::Strict, ExtMode::Slice);
        recipe_selfcheck(rep, case, &r);
        let f = Family::Sliced;
        let name = f.name(case.start);
        rep.evals += 1;
        rep.count(&format!("entry.{}", name));
        match run_family(f, case.start, &case.bytes, false) {
            Ok(d) => {
                judge_strict(rep, "", name, &case.bytes, &r, &d.whole.out);
                // the packet-level accessor methods against the reference layers
                if d.whole.out.err.is_none() && r.fault.is_none() {
                    let acc = &d.whole.acc;
                    let get = |k: &str| acc.iter().find(|x| x.0 == k).map(|x| x.1);
                    let mut bad: Option<String> = None;
                    // ether_payload(): the payload of the innermost link / link extension layer
                    if let Some(l) = r.layers.iter().rev().find(|l| matches!(l.kind, Kind::Eth | Kind::EtherStart | Kind::Vlan | Kind::Macsec)) {
                        let ety = if l.kind == Kind::Macsec { l.get("next_ety").filter(|v| *v != 0) } else { l.get("ety") };
                        if let (Some(ety), Some(off), Some(len)) = (ety, l.get("~pay_off"), l.get("~pay_len")) {
                            let unmod_macsec_or_other = l.kind != Kind::Macsec || l.get("next_ety").map(|v| v != 0).unwrap_or(false);
                            if unmod_macsec_or_other {
                                if get("ether.ety") != Some(ety) || get("ether.off") != Some(off) || get("ether.len") != Some(len) {
                                    bad = Some(format!(
                                        "ether_payload() = (type {:?}, offset {:?}, len {:?}) but the innermost {:?} layer has (type {}, offset {}, len {})",
                                        get("ether.ety"), get("ether.off"), get("ether.len"), l.kind, ety, off, len
                                    ));
                                }
                                // a length source other than the slice only where a MACsec short length limits the data
                                let macsec_limit = r.layers.iter().any(|x| x.kind == Kind::Macsec && x.get("~pay_src") == Some(Src::MacsecShort as u8 as u128));
                                if let Some(s) = get("ether.src") {
                                    if s != Src::Slice.bit() as u128 && !(macsec_limit && s == Src::MacsecShort.bit() as u128) {
                                        bad = Some(format!("ether_payload().len_source bit {} although no MACsec short length limits the payload", s));
                                    }
                                }
                            }
                        }
                    }
                    // ip_payload()
                    if let Some(l) = r.layers.iter().find(|l| matches!(l.kind, Kind::Ipv4 | Kind::Ipv6)) {
                        if let (Some(num), Some(off), Some(len)) = (l.get("pay_num"), l.get("~pay_off"), l.get("~pay_len")) {
                            if get("ip.num") != Some(num) || get("ip.off") != Some(off) || get("ip.len") != Some(len) {
                                bad = Some(format!(
                                    "ip_payload() = (number {:?}, offset {:?}, len {:?}) but the IP layer has (number {}, offset {}, len {})",
                                    get("ip.num"), get("ip.off"), get("ip.len"), num, off, len
                                ));
                            }
                            if let Some(fr) = l.get("fragmented") {
                                if get("ip.frag") != Some(fr) || get("is_ip_payload_fragmented") != Some(fr) {
                                    bad = Some(format!("ip_payload().fragmented {:?} / is_ip_payload_fragmented() {:?} but the IP layer says {}", get("ip.frag"), get("is_ip_payload_fragmented"), fr));
                                }
                            }
                        }
                    }
                    // vlan_ids(): the ids of the VLAN layers, outermost first
                    let want_ids = r.layers.iter().filter(|l| l.kind == Kind::Vlan).fold(1u128, |a, l| (a << 16) | l.get("vid").unwrap_or(0));
                    if get("vlan_ids") != Some(want_ids) {
                        bad = Some(format!("vlan_ids() packs to {:?}, the VLAN layers give {}", get("vlan_ids"), want_ids));
                    }
                    if get("views_consistent") == Some(0) {
                        bad = Some("views (NetSlice::ip_payload_ref / is_ip / *_ref, LinkSlice::sll_payload, vlan()) disagree with the fields they are views of".to_string());
                    }
                    match bad {
                        Some(b) => rep.violation(&format!("packet_accessor|{}|{}", name, b.split('(').next().unwrap_or("").trim()), format!("{}: {}", name, b), &case.bytes),
                        None => rep.count("packet_accessors_agree"),
                    }
                }
                if d.whole.budget_exceeded {
                    rep.note("NOTE iterator budget exceeded (C02)");
                }
                let sig = format!(
                    "{}|{}|{}",
                    name,
                    d.whole.out.signature(),
                    r.fault.as_ref().map(|f| format!("{:?}", f.kind)).unwrap_or_default()
                );
                if r_nontrivial(&r) {
                    rep.sig(&sig);
                }
                if let Some(e) = &d.whole.out.err {
                    rep.count(&format!("error_kind.{}", e.class()));
                }
                if rep.want_sample() && r_nontrivial(&r) && case.bytes.len() < 200 {
                    rep.sample(sample(&case.desc, case.start, &case.bytes, &d.whole.out.signature()));
                }
            }
            Err(p) => note_abnormal(rep, name, &p),
        }
    }

    /// the strict IP level slicers (12 IP boundary copies are C06; here the three slicers that
    /// hand out slices)
    fn ip_level(&mut self, rep: &mut Report, bytes: &[u8], desc: &str) {
        for (start, name) in [
            (Start::Ip, "IpSlice::from_slice"),
            (Start::Ipv4, "Ipv4Slice::from_slice"),
            (Start::Ipv6, "Ipv6Slice::from_slice"),
        ] {
            let mut r = rdecode(bytes, start, Mode::Strict, ExtMode::Slice);
            // transport is not part of these entry points
            r.layers.retain(|l| !matches!(l.kind, Kind::Udp | Kind::Tcp | Kind::Icmp4 | Kind::Icmp6));
            if let Some(f) = &r.fault {
                if matches!(f.kind, Kind::Udp | Kind::Tcp | Kind::Icmp4 | Kind::Icmp6) {
                    r.fault = None;
                }
            }
            rep.evals += 1;
            rep.count(&format!("entry.{}", name));
            shell::progress_entry(entry_id(Family::Sliced, start) + 100);
            let res = shell::guarded(|| {
                let mut cx = Cx::new(bytes);
                let mut layers = Vec::new();
                let out = match start {
                    Start::Ip => match IpSlice::from_slice(bytes) {
                        Ok(IpSlice::Ipv4(s)) => {
                            observe::ls_ipv4(&mut cx, &s, &mut layers);
                            NOut::ok(layers)
                        }
                        Ok(IpSlice::Ipv6(s)) => {
                            observe::ls_ipv6(&mut cx, &s, &mut layers);
                            NOut::ok(layers)
                        }
                        Err(e) => NOut::err(observe::n_ip_slice_error(&e)),
                    },
                    Start::Ipv4 => match Ipv4Slice::from_slice(bytes) {
                        Ok(s) => {
                            observe::ls_ipv4(&mut cx, &s, &mut layers);
                            NOut::ok(layers)
                        }
                        Err(e) => NOut::err(observe::n_ipv4_slice_error(&e)),
                    },
                    _ => match Ipv6Slice::from_slice(bytes) {
                        Ok(s) => {
                            observe::ls_ipv6(&mut cx, &s, &mut layers);
                            NOut::ok(layers)
                        }
                        Err(e) => NOut::err(observe::n_ipv6_slice_error(&e)),
                    },
                };
                out
            });
            match res {
                Ok(out) => {
                    judge_strict(rep, "iplevel|", name, bytes, &r, &out);
                    if r_nontrivial(&r) {
                        rep.sig(&format!("{}|{}", name, out.signature()));
                    }
                }
                Err(p) => note_abnormal(rep, name, &p),
            }
        }
        let _ = desc;
    }
}

impl Monitor for C03 {
    fn engines(&self, tier: Tier) -> Vec<(&'static str, u64)> {
        vec![
            ("clean", tier.pick(600000, 60000000)),
            ("hostile", tier.pick(5000000, 600000000)),
            ("sweep", tier.pick(60000, 6000000)),
            ("ethertype", tier.pick(65_536, 65_536 * 4)),
            ("iplevel", tier.pick(1500000, 150000000)),
            ("corpus", tier.pick(400_000, 8_000_000)),
            ("big", tier.pick(40_000, 2_000_000)),
            ("bytesweep", tier.pick(6_000, 400_000)),
            ("wordsweep", tier.pick(96, 6_000)),
        ]
    }

    fn run_case(&mut self, engine: &str, idx: u64, rng: &mut Prng, rep: &mut Report) {
        match engine {
            "clean" => {
                let case = gen::gen_case(rng, &GenOpts::clean());
                self.whole(rep, &case);
            }
            "wordsweep" => {
                gen::wordsweep(rng, |c| {
                    self.whole(rep, c);
                });
                rep.count("wordsweeps");
            }
            "bytesweep" => {
                for c in gen::bytesweep(rng) {
                    rep.count("bytesweep_cases");
                    self.whole(rep, &c);
                }
            }
            "big" => {
                // true sizes around 2^16: where 16 bit arithmetic on lengths would wrap
                gen::set_big(true);
                let o = if rng.bool() { GenOpts::clean() } else { GenOpts::hostile() };
                let case = gen::gen_case(rng, &o);
                gen::set_big(false);
                if case.bytes.len() > 60_000 {
                    rep.count("big_cases");
                }
                self.whole(rep, &case);
            }
            "hostile" => {
                let case = gen::gen_case(rng, &GenOpts::hostile());
                self.whole(rep, &case);
            }
            "sweep" => {
                // every truncation point of one (mostly well-formed) packet
                let mut o = GenOpts::clean();
                if rng.chance(1, 3) {
                    o.lie = Lie::Any;
                }
                let base = gen::gen_case(rng, &o);
                let n = base.bytes.len().min(400);
                for cut in 0..=n {
                    let c = Case {
                        bytes: base.bytes[..cut].to_vec(),
                        start: base.start,
                        recipe: None,
                        desc: format!("{}+cut{}", base.desc, cut),
                    };
                    self.whole(rep, &c);
                }
            }
            "ethertype" => {
                // all 65 536 ether types in front of a fixed family of bodies
                let t = (idx % 65_536) as u16;
                let variant = idx / 65_536;
                let mut body_rng = Prng::for_case(0xE7, "ethertype-body", variant);
                let (_, b) = match variant % 4 {
                    0 => (0, gen::gen_ipv4(&mut body_rng, Lie::None)),
                    1 => (0, gen::gen_ipv6(&mut body_rng, Lie::None)),
                    2 => (0, gen::gen_arp(&mut body_rng, Lie::None)),
                    _ => {
                        let (t2, inner) = gen::gen_net(&mut body_rng, Lie::None);
                        let (_, w) = gen::wrap_vlan(&mut body_rng, t2, inner);
                        (0, w)
                    }
                };
                let c = Case {
                    bytes: b.bytes,
                    start: Start::EtherType(t),
                    recipe: None,
                    desc: format!("ety{:04x}:{}", t, b.desc),
                };
                self.whole(rep, &c);
                let _ = ety::IPV4;
            }
            "iplevel" => {
                let mut o = GenOpts::hostile();
                o.start = StartSel::Ip;
                let case = gen::gen_case(rng, &o);
                self.ip_level(rep, &case.bytes, &case.desc);
            }
            "corpus" => match gen::corpus::case(idx, rng) {
                Some(case) => {
                    rep.count("corpus_cases");
                    self.whole(rep, &case);
                    if case.start == Start::Ip {
                        self.ip_level(rep, &case.bytes, &case.desc);
                    }
                }
                None => rep.selfcheck_fail("corpus file missing".into()),
            },
            _ => {}
        }
    }
}
