//! Monitors, one per property.

use crate::prng::Prng;
use crate::report::Report;

pub mod api;
pub mod c01;
pub mod c03;
pub mod c04;
pub mod c05;
pub mod c06;
pub mod c07;
pub mod c08;
pub mod c09;
pub mod c10;
pub mod c11;
pub mod c12;
pub mod c13;
pub mod c14;
pub mod c15;
pub mod c16;
pub mod c17;
pub mod common;

#[derive(Clone, Copy, Debug, PartialEq, Eq)]
pub enum Tier {
    Quick,
    Thorough,
}

impl Tier {
    pub fn pick(self, quick: u64, thorough: u64) -> u64 {
        match self {
            Tier::Quick => quick,
            Tier::Thorough => thorough,
        }
    }
}

pub trait Monitor {
    /// engines (workload classes) with the number of cases each has in the given tier
    fn engines(&self, tier: Tier) -> Vec<(&'static str, u64)>;
    /// run case `idx` of `engine`; `rng` is seeded from (VERIF_SEED, engine, idx)
    fn run_case(&mut self, engine: &str, idx: u64, rng: &mut Prng, rep: &mut Report);
    fn finish(&mut self, _rep: &mut Report) {}
}

pub fn make(prop: &str, flavour: &str) -> Option<Box<dyn Monitor>> {
    let _ = flavour;
    match prop {
        "C01" => Some(Box::new(c01::C01::new(c01::Which::C01, flavour))),
        "C02" => Some(Box::new(c01::C01::new(c01::Which::C02, flavour))),
        "C03" => Some(Box::new(c03::C03::new())),
        "C04" => Some(Box::new(c04::C04::new())),
        "C05" => Some(Box::new(c05::C05::new())),
        "C06" => Some(Box::new(c06::C06::new())),
        "C07" => Some(Box::new(c07::C07::new())),
        "C08" => Some(Box::new(c08::C08::new())),
        "C09" => Some(Box::new(c09::C09::new())),
        "C10" => Some(Box::new(c10::C10::new())),
        "C11" => Some(Box::new(c11::C11::new(flavour))),
        "C12" => Some(Box::new(c12::C12::new())),
        "C13" => Some(Box::new(c13::C13::new())),
        "C14" => Some(Box::new(c14::C14::new())),
        "C15" => Some(Box::new(c15::C15::new())),
        "C16" => Some(Box::new(c16::C16::new(flavour))),
        "C17" => Some(Box::new(c17::C17::new())),
        _ => None,
    }
}
