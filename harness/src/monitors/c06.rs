//! C06 — equivalent entry points give equivalent answers.
//!
//! (a) the IP boundary siblings agree with each other, (b) from_ethernet == from_ether_type on
//! the bytes behind the Ethernet II header (error offsets shifted by 14), (c) from_ether_type
//! (IPv4/IPv6) == from_ip, (d) `read` from an io::Read == `from_slice` for every header type,
//! and consumes exactly the header's bytes.

use super::common::*;
use super::{Monitor, Tier};
use crate::gen::{self, Case, GenOpts, StartSel};
use crate::neutral::*;
use crate::observe::entry::{Family, FAMILIES};
use crate::observe::iplevel::{self, IpEntry, IpOut};
use crate::observe::single::{Dec, HEADERS};
use crate::observe::whole::{to_header_image, Whole};
use crate::observe::Cx;
use crate::prng::Prng;
use crate::refmodel::pkt::{ExtMode, Mode, Start};
use crate::report::Report;
use crate::shell;
use std::io::Cursor;

pub struct C06 {}

impl C06 {
    pub fn new() -> C06 {
        C06 {}
    }
}

/// the sibling decoders use different names for the same layer (IpHeader / Ipv4Header / …)
fn lay_family(l: Lay) -> u8 {
    match l {
        Lay::IpHeader | Lay::Ipv4Header | Lay::Ipv6Header => 1,
        Lay::Ipv4Packet | Lay::Ipv6Packet => 2,
        Lay::Ipv6ExtHeader | Lay::Ipv6HopByHopHeader | Lay::Ipv6DestOptionsHeader | Lay::Ipv6RouteHeader => 3,
        other => 10 + other as u8,
    }
}

fn project_err(e: &NErr) -> String {
    match e {
        NErr::Len {
            required,
            len,
            src,
            layer,
            off,
        } => format!("Len(req={},len={},src={:?},layer_family={},off={})", required, len, src, lay_family(*layer), off),
        NErr::Content(c) => format!("Content({})", c),
        NErr::Io(s) => format!("Io({})", s),
    }
}

fn shift_layers(layers: &[NLayer], by: usize) -> Vec<NLayer> {
    layers
        .iter()
        .map(|l| {
            let mut n = l.clone();
            if n.off != NO_OFF {
                n.off += by;
            }
            for (k, v) in n.f.iter_mut() {
                if *k == "~pay_off" {
                    *v += by as u128;
                }
            }
            n
        })
        .collect()
}

fn strip_first(layers: &[NLayer], kinds: &[Kind]) -> Vec<NLayer> {
    let mut v = layers.to_vec();
    if let Some(f) = v.first() {
        if kinds.contains(&f.kind) {
            v.remove(0);
        }
    }
    v
}

/// a source that delivers its data in small pieces and is interrupted now and then - what sockets
/// and pipes do; `read_exact` copes with both, a single `read` call does not
struct ChunkedReader<'a> {
    inner: Cursor<&'a [u8]>,
    max_chunk: usize,
    calls: usize,
    interrupt_every: usize,
}

impl<'a> std::io::Read for ChunkedReader<'a> {
    fn read(&mut self, buf: &mut [u8]) -> std::io::Result<usize> {
        self.calls += 1;
        if self.interrupt_every != 0 && self.calls % self.interrupt_every == 0 {
            return Err(std::io::Error::new(std::io::ErrorKind::Interrupted, "interrupted"));
        }
        let n = buf.len().min(self.max_chunk);
        self.inner.read(&mut buf[..n])
    }
}
impl<'a> std::io::Seek for ChunkedReader<'a> {
    fn seek(&mut self, pos: std::io::SeekFrom) -> std::io::Result<u64> {
        self.inner.seek(pos)
    }
}

impl C06 {
    /// compare two whole-packet results that must be equivalent; `shift` is added to all
    /// offsets of `b` before comparing
    fn equivalent(
        &mut self,
        rep: &mut Report,
        rule: &str,
        a_name: &str,
        a: &Whole,
        b_name: &str,
        b: &Whole,
        shift: usize,
        bytes: &[u8],
        multi_fault: bool,
    ) {
        let la = strip_first(&a.out.layers, &[Kind::Eth, Kind::EtherStart]);
        let lb = shift_layers(&strip_first(&b.out.layers, &[Kind::Eth, Kind::EtherStart]), shift);
        match (&a.out.err, &b.out.err) {
            (None, None) => {}
            (Some(x), Some(y)) => {
                let y = y.shift(shift);
                if project_err(x) != project_err(&y) && !multi_fault {
                    rep.violation(
                        &format!("{}|error|{}|{}|{}", rule, a_name, x.class(), y.class()),
                        format!("{}: {} -> {:?} but {} -> {:?} (offsets shifted by {})", rule, a_name, x, b_name, y, shift),
                        bytes,
                    );
                } else {
                    rep.count(&format!("{}.same_error", rule));
                }
                return;
            }
            (x, y) => {
                rep.violation(
                    &format!("{}|verdict|{}|{}", rule, a_name, x.is_some()),
                    format!("{}: {} -> {:?} but {} -> {:?}", rule, a_name, x, b_name, y),
                    bytes,
                );
                return;
            }
        }
        if let Some((sig, d)) = diff_layers(a_name, &la, b_name, &lb) {
            rep.violation(&format!("{}|layers|{}|{}", rule, a_name, sig), format!("{}: {}", rule, d), bytes);
            return;
        }
        match (&a.out.stop, &b.out.stop) {
            (None, None) => {}
            (Some((x, lx)), Some((y, ly))) => {
                let y = y.shift(shift);
                if (project_err(x) != project_err(&y) || lx != ly) && !multi_fault {
                    rep.violation(
                        &format!("{}|stop|{}|{}|{}", rule, a_name, x.class(), y.class()),
                        format!("{}: {} stops with {:?}@{:?} but {} with {:?}@{:?}", rule, a_name, x, lx, b_name, y, ly),
                        bytes,
                    );
                    return;
                }
            }
            (x, y) => {
                rep.violation(
                    &format!("{}|stop_presence|{}", rule, a_name),
                    format!("{}: {} stop {:?} but {} stop {:?}", rule, a_name, x, b_name, y),
                    bytes,
                );
                return;
            }
        }
        if a.pay.kind != b.pay.kind
            || (a.pay.kind != "empty" && a.pay.kind != "none" && (a.pay.off != b.pay.off + shift || a.pay.len != b.pay.len))
            || a.pay.num != b.pay.num
            || a.pay.incomplete != b.pay.incomplete
            || a.pay.fragmented != b.pay.fragmented
        {
            rep.violation(
                &format!("{}|payload|{}|{}", rule, a_name, a.pay.kind),
                format!("{}: payload {:?} vs {:?} (+{})", rule, a.pay, b.pay, shift),
                bytes,
            );
            return;
        }
        rep.count(&format!("{}.same", rule));
    }

    fn starting_points(&mut self, rep: &mut Report, case: &Case) {
        let bytes = &case.bytes;
        for f in FAMILIES {
            // (b) Ethernet II vs its ether type
            if bytes.len() >= 14 && case.start == Start::Eth {
                let t = ((bytes[12] as u16) << 8) | bytes[13] as u16;
                let a_name = f.name(Start::Eth);
                let b_name = f.name(Start::EtherType(t));
                rep.evals += 1;
                let a = run_family(f, Start::Eth, bytes, false);
                let b = run_family(f, Start::EtherType(t), &bytes[14..], false);
                match (a, b) {
                    (Ok(a), Ok(b)) => {
                        let mode = if f.is_lax() { Mode::Lax } else { Mode::Strict };
                        let ext = if f.is_struct() { ExtMode::Struct } else { ExtMode::Slice };
                        let multi = rdecode(bytes, Start::Eth, mode, ext).fault.map(|f| !f.single()).unwrap_or(false);
                        self.equivalent(rep, "eth_vs_ether_type", a_name, &a.whole, b_name, &b.whole, 14, bytes, multi);
                        if nontrivial(&a.whole.out) {
                            rep.sig(&format!("b|{}|{}", a_name, a.whole.out.signature()));
                        }
                    }
                    (Err(p), _) | (_, Err(p)) => note_abnormal(rep, a_name, &p),
                }
            }
            // (c) IP ether type vs IP
            if let Start::Ip = case.start {
                if bytes.is_empty() {
                    continue;
                }
                let v = bytes[0] >> 4;
                let t = match v {
                    4 => 0x0800u16,
                    6 => 0x86dd,
                    _ => continue,
                };
                let a_name = f.name(Start::EtherType(t));
                let b_name = f.name(Start::Ip);
                rep.evals += 1;
                let a = run_family(f, Start::EtherType(t), bytes, false);
                let b = run_family(f, Start::Ip, bytes, false);
                match (a, b) {
                    (Ok(a), Ok(b)) => {
                        let mode = if f.is_lax() { Mode::Lax } else { Mode::Strict };
                        let ext = if f.is_struct() { ExtMode::Struct } else { ExtMode::Slice };
                        let multi = rdecode(bytes, Start::Ip, mode, ext).fault.map(|f| !f.single()).unwrap_or(false);
                        // from_ip of a lax family returns Err for an undecodable first header
                        // where from_ether_type records a stop error: compare as errors
                        let mut aw = a.whole;
                        if f.is_lax() && b.whole.out.err.is_some() {
                            if let Some((e, _)) = aw.out.stop.take() {
                                aw.out.err = Some(e);
                                aw.out.layers.clear();
                                aw.pay = crate::observe::whole::NPay::none();
                            }
                        }
                        // the payload of from_ether_type is an ether payload until IP is decoded
                        if aw.out.err.is_some() {
                            aw.pay = crate::observe::whole::NPay::none();
                        }
                        self.equivalent(rep, "ether_type_vs_ip", a_name, &aw, b_name, &b.whole, 0, bytes, multi);
                        if nontrivial(&b.whole.out) {
                            rep.sig(&format!("c|{}|{}", b_name, b.whole.out.signature()));
                        }
                    }
                    (Err(p), _) | (_, Err(p)) => note_abnormal(rep, a_name, &p),
                }
            }
        }
    }

    /// (a) the IP boundary siblings
    fn ip_siblings(&mut self, rep: &mut Report, bytes: &[u8]) {
        if bytes.is_empty() {
            return;
        }
        let v = bytes[0] >> 4;
        let groups: Vec<Vec<IpEntry>> = match v {
            4 => vec![
                vec![IpEntry::IpSlice, IpEntry::Ipv4Slice, IpEntry::HdrsFromSlice, IpEntry::HdrsFromIpv4Slice],
                vec![
                    IpEntry::LaxIpSlice,
                    IpEntry::LaxIpv4Slice,
                    IpEntry::HdrsFromSliceLax,
                    IpEntry::HdrsFromIpv4SliceLax,
                ],
            ],
            6 => vec![
                vec![IpEntry::IpSlice, IpEntry::Ipv6Slice, IpEntry::HdrsFromSlice, IpEntry::HdrsFromIpv6Slice],
                vec![
                    IpEntry::LaxIpSlice,
                    IpEntry::LaxIpv6Slice,
                    IpEntry::HdrsFromSliceLax,
                    IpEntry::HdrsFromIpv6SliceLax,
                ],
            ],
            _ => vec![
                vec![IpEntry::IpSlice, IpEntry::HdrsFromSlice],
                vec![IpEntry::LaxIpSlice, IpEntry::HdrsFromSliceLax],
            ],
        };
        for g in groups {
            let mode = g[0].mode();
            let rs = rdecode(bytes, g[0].start(), mode, ExtMode::Slice);
            let rh = rdecode(bytes, g[0].start(), mode, ExtMode::Struct);
            let fits = canonical_ext_order(&to_header_image(&rs.layers)) == canonical_ext_order(&to_header_image(&rh.layers))
                && rs.fault.as_ref().map(|f| (f.kind, f.off)) == rh.fault.as_ref().map(|f| (f.kind, f.off));
            let multi = rs.fault.as_ref().map(|f| !f.single()).unwrap_or(false)
                || rh.fault.as_ref().map(|f| !f.single()).unwrap_or(false);
            let mut outs: Vec<(IpEntry, IpOut)> = Vec::new();
            for e in &g {
                rep.evals += 1;
                rep.count(&format!("entry.{}", e.name()));
                shell::progress_entry(e.id());
                match shell::guarded(|| {
                    let mut cx = Cx::new(bytes);
                    iplevel::decode(*e, bytes, &mut cx, false)
                }) {
                    Ok(o) => outs.push((*e, o)),
                    Err(p) => note_abnormal(rep, e.name(), &p),
                }
            }
            // pairwise against the first of the same walk mode (or the very first if the chain fits)
            for i in 1..outs.len() {
                let (eb, ob) = (&outs[i].0, &outs[i].1);
                let j = if fits || !eb.is_struct() {
                    0
                } else {
                    // first struct sibling
                    match outs.iter().position(|(e, _)| e.is_struct()) {
                        Some(j) if j != i => j,
                        _ => continue,
                    }
                };
                let (ea, oa) = (&outs[j].0, &outs[j].1);
                self.ip_pair(rep, bytes, *ea, oa, *eb, ob, multi);
            }
            if let Some((e, o)) = outs.first() {
                if o.out.layers.len() >= 2 || o.out.err.is_some() || o.out.stop.is_some() {
                    rep.sig(&format!("a|{}|{}|{}", e.name(), o.out.signature(), fits));
                }
            }
        }
    }

    fn ip_pair(&mut self, rep: &mut Report, bytes: &[u8], ea: IpEntry, a: &IpOut, eb: IpEntry, b: &IpOut, multi: bool) {
        let rule = "ip_siblings";
        let name = format!("{}~{}", ea.name(), eb.name());
        match (&a.out.err, &b.out.err) {
            (None, None) => {}
            (Some(x), Some(y)) => {
                if project_err(x) != project_err(y) && !multi {
                    rep.violation(
                        &format!("{}|error|{}|{}|{}", rule, name, x.class(), y.class()),
                        format!("{} -> {:?} but {} -> {:?}", ea.name(), x, eb.name(), y),
                        bytes,
                    );
                } else {
                    rep.count("ip_siblings.same_error");
                }
                return;
            }
            (x, y) => {
                rep.violation(
                    &format!("{}|verdict|{}", rule, name),
                    format!("{} -> {:?} but {} -> {:?}", ea.name(), x, eb.name(), y),
                    bytes,
                );
                return;
            }
        }
        let ia = canonical_ext_order(&to_header_image(&a.out.layers));
        let ib = canonical_ext_order(&to_header_image(&b.out.layers));
        if let Some((sig, d)) = diff_layers(ea.name(), &ia, eb.name(), &ib) {
            rep.violation(&format!("{}|headers|{}|{}", rule, name, sig), d, bytes);
            return;
        }
        match (&a.out.stop, &b.out.stop) {
            (None, None) => {}
            (Some((x, lx)), Some((y, ly))) => {
                if (project_err(x) != project_err(y) || lay_family(*lx) != lay_family(*ly)) && !multi {
                    rep.violation(
                        &format!("{}|stop|{}|{}|{}", rule, name, x.class(), y.class()),
                        format!("{} stops with {:?}@{:?} but {} with {:?}@{:?}", ea.name(), x, lx, eb.name(), y, ly),
                        bytes,
                    );
                    return;
                }
            }
            (x, y) => {
                rep.violation(
                    &format!("{}|stop_presence|{}", rule, name),
                    format!("{} stop {:?} but {} stop {:?}", ea.name(), x, eb.name(), y),
                    bytes,
                );
                return;
            }
        }
        if a.pay != b.pay {
            rep.violation(
                &format!("{}|payload|{}", rule, name),
                format!("{} payload {:?} but {} payload {:?}", ea.name(), a.pay, eb.name(), b.pay),
                bytes,
            );
            return;
        }
        rep.count("ip_siblings.same");
    }

    /// (d) read vs from_slice
    fn read_vs_slice(&mut self, rep: &mut Report, rng: &mut Prng, idx: u64) {
        let ti = rng.usize_below(HEADERS.len());
        let t = &HEADERS[ti];
        let _ = idx;
        let bytes = (t.gen)(rng);
        rep.evals += 1;
        rep.count(&format!("entry.{}::read", t.name));
        shell::progress_entry(300 + ti as u64);
        // one case in three reads from a source that delivers small pieces and gets interrupted
        let chunked = rng.chance(1, 3);
        let (max_chunk, interrupt_every) = (rng.range(1, 4) as usize, if rng.bool() { rng.range(2, 5) as usize } else { 0 });
        let res = shell::guarded(|| {
            let s = (t.from_slice)(&bytes);
            if chunked {
                let mut cr = ChunkedReader { inner: Cursor::new(&bytes[..]), max_chunk, calls: 0, interrupt_every };
                let r = (t.read)(&mut cr, &bytes);
                (s, r, cr.inner.position() as usize)
            } else {
                let mut cur = Cursor::new(&bytes[..]);
                let r = (t.read)(&mut cur, &bytes);
                (s, r, cur.position() as usize)
            }
        });
        if chunked {
            rep.count("read_vs_slice.chunked_source");
        }
        let (s, r, pos) = match res {
            Ok(x) => x,
            Err(p) => {
                note_abnormal(rep, t.name, &p);
                return;
            }
        };
        let viol = |rep: &mut Report, what: &str, detail: String| {
            rep.violation(&format!("read_vs_slice|{}|{}", t.name, what), format!("{}: {}", t.name, detail), &bytes);
        };
        match (&s, &r) {
            (Ok(sd), Ok(rd)) => {
                if sd.value != rd.value {
                    viol(rep, "value", format!("from_slice -> {} but read -> {}", sd.value, rd.value));
                } else if pos != sd.consumed {
                    viol(
                        rep,
                        "consumed",
                        format!("read consumed {} bytes, the header occupies {} (header_len {})", pos, sd.consumed, sd.header_len),
                    );
                } else if rd.consumed != 0 && rd.consumed != sd.consumed {
                    viol(rep, "limited_read_len", format!("LimitedReader::read_len {} but the header occupies {}", rd.consumed, sd.consumed));
                } else {
                    rep.count("read_vs_slice.same_value");
                    rep.sig(&format!("d|{}|ok|{}", t.name, sd.consumed));
                }
            }
            (Err(se), Err(re)) => {
                let same = match (se, re) {
                    // a slice that is too short is an unexpected EOF for a reader
                    (NErr::Len { required, len, .. }, NErr::Io(k)) => k == "UnexpectedEof" && required > len,
                    (NErr::Io(a), NErr::Io(b)) => a == b,
                    (
                        NErr::Len {
                            required: r1,
                            len: l1,
                            ..
                        },
                        NErr::Len {
                            required: r2,
                            len: l2,
                            ..
                        },
                    ) => {
                        // length limited readers report the same shortage (their limit is the
                        // slice length here); a reader may notice it at the fixed part already
                        // (a decoder may stop at the fixed minimum before it knows the full
                        // header length: both requirements are truthful, appendix A)
                        let _ = (r1, r2);
                        l1 - t.param_bytes.min(*l1) == *l2 || l1 == l2
                    }
                    (NErr::Content(a), NErr::Content(b)) => a == b,
                    _ => false,
                };
                if same {
                    rep.count("read_vs_slice.same_rejection");
                    rep.count(&format!("read_vs_slice.rejection.{}", se.class().split(':').next().unwrap_or("")));
                    rep.sig(&format!("d|{}|{}", t.name, se.class()));
                } else if matches!(se, NErr::Len { layer: Lay::Ipv4Packet | Lay::Ipv6Packet, .. }) {
                    // the slice does not hold the announced packet: outside the statement ("a slice
                    // that holds the announced packet"); the reader cannot know and goes on
                    rep.count("read_vs_slice.length_rule_skipped");
                } else {
                    // coexisting faults (content + length) may be reported in either order
                    let multi = matches!((se, re), (NErr::Content(_), NErr::Io(_)) | (NErr::Content(_), NErr::Len { .. }) | (NErr::Len { .. }, NErr::Content(_)));
                    if multi {
                        rep.count("read_vs_slice.multi_fault_skipped");
                    } else {
                        viol(rep, &format!("reason|{}|{}", se.class(), re.class()), format!("from_slice rejects with {:?} but read with {:?}", se, re));
                    }
                }
            }
            (Err(se), Ok(rd)) => {
                // rules that depend on the total slice length cannot be known by a reader
                let length_rule = match se {
                    NErr::Len { layer, required, len, .. } => {
                        matches!(layer, Lay::Icmpv4Timestamp | Lay::Icmpv4TimestampReply) && required < len
                            || matches!(layer, Lay::Ipv4Packet | Lay::Ipv6Packet)
                    }
                    _ => false,
                };
                if length_rule {
                    rep.count("read_vs_slice.length_rule_skipped");
                } else {
                    viol(rep, &format!("verdict|slice_rejects|{}", se.class()), format!("from_slice rejects with {:?} but read returns {}", se, rd.value));
                }
            }
            (Ok(sd), Err(re)) => {
                viol(rep, &format!("verdict|read_rejects|{}", re.class()), format!("from_slice returns {} but read rejects with {:?}", sd.value, re));
            }
        }
        let _: Option<Dec> = None;
    }
}

impl Monitor for C06 {
    fn engines(&self, tier: Tier) -> Vec<(&'static str, u64)> {
        vec![
            ("eth", tier.pick(2000000, 250000000)),
            ("ip", tier.pick(2000000, 250000000)),
            ("siblings", tier.pick(2000000, 250000000)),
            ("sweep", tier.pick(20000, 2000000)),
            ("read", tier.pick(6000000, 600000000)),
            ("corpus", tier.pick(400_000, 8_000_000)),
            ("api", tier.pick(1_000_000, 20_000_000)),
            ("big", tier.pick(30_000, 1_500_000)),
            ("bytesweep", tier.pick(5_000, 300_000)),
        ]
    }

    fn run_case(&mut self, engine: &str, idx: u64, rng: &mut Prng, rep: &mut Report) {
        match engine {
            "api" => super::api::c06(rep, rng),
            "corpus" => match gen::corpus::case(idx, rng) {
                Some(case) => {
                    rep.count("corpus_cases");
                    self.starting_points(rep, &case);
                    if case.start == Start::Ip {
                        self.ip_siblings(rep, &case.bytes);
                    }
                }
                None => rep.selfcheck_fail("corpus file missing".into()),
            },
            "eth" => {
                let mut o = GenOpts::hostile();
                o.start = StartSel::Eth;
                let case = gen::gen_case(rng, &o);
                self.starting_points(rep, &case);
            }
            "bytesweep" => {
                for c in gen::bytesweep(rng) {
                    rep.count("bytesweep_cases");
                    self.starting_points(rep, &c);
                    if c.start == Start::Ip {
                        self.ip_siblings(rep, &c.bytes);
                    }
                }
            }
            "big" => {
                let mut o = if rng.bool() { GenOpts::clean() } else { GenOpts::hostile() };
                o.start = if rng.bool() { StartSel::Eth } else { StartSel::Ip };
                gen::set_big(true);
                let case = gen::gen_case(rng, &o);
                gen::set_big(false);
                if case.bytes.len() > 60_000 {
                    rep.count("big_cases");
                }
                self.starting_points(rep, &case);
                if case.start == Start::Ip {
                    self.ip_siblings(rep, &case.bytes);
                }
            }
            "ip" => {
                let mut o = GenOpts::hostile();
                o.start = StartSel::Ip;
                let case = gen::gen_case(rng, &o);
                self.starting_points(rep, &case);
            }
            "siblings" => {
                let mut o = GenOpts::hostile();
                o.start = StartSel::Ip;
                let case = gen::gen_case(rng, &o);
                self.ip_siblings(rep, &case.bytes);
            }
            "sweep" => {
                let mut o = GenOpts::clean();
                o.start = if rng.bool() { StartSel::Eth } else { StartSel::Ip };
                if rng.chance(1, 3) {
                    o.lie = gen::Lie::Any;
                }
                let base = gen::gen_case(rng, &o);
                let n = base.bytes.len().min(200);
                for cut in 0..=n {
                    let c = Case {
                        bytes: base.bytes[..cut].to_vec(),
                        start: base.start,
                        recipe: None,
                        desc: String::new(),
                    };
                    self.starting_points(rep, &c);
                    if base.start == Start::Ip {
                        self.ip_siblings(rep, &c.bytes);
                    }
                }
            }
            "read" => self.read_vs_slice(rep, rng, idx),
            _ => {}
        }
    }
}
