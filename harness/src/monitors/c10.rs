//! C10 — PacketBuilder emits consistent, parseable packets of the announced size.
//!
//! For every builder configuration (enumerated paths x random values) and payload:
//! `size(n)` = bytes written; `write`, `write_to_vec`, `write_to_slice` produce identical bytes;
//! the independent reference decoder (R-strict) and `SlicedPacket` accept them and recover the
//! supplied addresses, ports, flags, options, extension headers and payload; derived fields are
//! consistent (ether types / protocol numbers name the next layer, IPv4 total length, IPv6
//! payload length, UDP length equal the actual sizes, all checksums verify against the
//! independent RFC 1071 reference); unencodable configurations yield an error, never a panic.

use super::common::*;
use super::{Monitor, Tier};
use crate::neutral::*;
use crate::observe::builder::{self, BConf, BLink, BNet, BResult, BTr, BVlan, Out};
use crate::observe::entry::Family;
use crate::prng::Prng;
use crate::refmodel::checksum as rc;
use crate::refmodel::pkt::{ExtMode, Mode, Start};
use crate::report::{hex, jstr, Report};
use crate::shell;
use etherparse::*;

pub struct C10 {}

impl C10 {
    pub fn new() -> C10 {
        C10 {}
    }
}

fn blob<'a>(l: &'a NLayer, n: &str) -> &'a [u8] {
    l.get_blob(n).unwrap_or(&[])
}

/// configuration from the enumerated path index: link(3) x vlan(5) x net(4) x transport(13)
pub const PATHS: u64 = 3 * 5 * 4 * 13;

fn conf_for_path(path: u64, rng: &mut Prng) -> Option<BConf> {
    let mut c = builder::rand_conf(rng);
    let link = path % 3;
    let vlan = (path / 3) % 5;
    let net = (path / 15) % 4;
    let tr = (path / 60) % 13;
    c.link = match link {
        0 => BLink::None,
        1 => BLink::Eth {
            src: rng.bytes(6).try_into().unwrap(),
            dst: rng.bytes(6).try_into().unwrap(),
        },
        _ => BLink::Sll {
            ptype: rng.below(8) as u16,
            alen: 6,
            addr: rng.bytes(8).try_into().unwrap(),
        },
    };
    c.vlan = if link == 1 {
        match vlan {
            0 => BVlan::None,
            1 => BVlan::Single(rng.u16()),
            2 => BVlan::Double(rng.u16(), rng.u16()),
            3 => BVlan::SingleHeader {
                pcp: rng.u8(),
                dei: rng.bool(),
                vid: rng.u16(),
            },
            _ => BVlan::DoubleHeader {
                outer: (rng.u8(), rng.bool(), rng.u16()),
                inner: (rng.u8(), rng.bool(), rng.u16()),
            },
        }
    } else {
        if vlan != 0 {
            return None;
        }
        BVlan::None
    };
    c.net = match net {
        0 => BNet::Ipv4 {
            src: rng.bytes(4).try_into().unwrap(),
            dst: rng.bytes(4).try_into().unwrap(),
            ttl: rng.u8_corner(),
        },
        1 => BNet::Ipv6 {
            src: rng.bytes(16).try_into().unwrap(),
            dst: rng.bytes(16).try_into().unwrap(),
            hop: rng.u8_corner(),
        },
        2 => BNet::Ip(builder::rand_ip_headers(rng)),
        _ => {
            if link == 0 {
                return None;
            }
            BNet::Arp(
                ArpPacket::new(
                    ArpHardwareId(1),
                    EtherType(0x0800),
                    ArpOperation(rng.range(1, 2) as u16),
                    &rng.bytes(6),
                    &rng.bytes(4),
                    &rng.bytes(6),
                    &rng.bytes(4),
                )
                .unwrap(),
            )
        }
    };
    if net == 3 {
        if tr != 0 {
            return None;
        }
        c.tr = BTr::None;
        return Some(c);
    }
    // transport kind: re-draw random configurations until the wanted kind comes up
    for _ in 0..200 {
        let t = builder::rand_conf(rng).tr;
        let k = match &t {
            BTr::Raw(_) => 0,
            BTr::Udp { .. } => 1,
            BTr::Tcp(_) => 2,
            BTr::TcpHeader(_) => 3,
            BTr::Icmp4(_) => 4,
            BTr::Icmp4Raw { .. } => 5,
            BTr::Icmp4EchoRequest { .. } => 6,
            BTr::Icmp4EchoReply { .. } => 7,
            BTr::Icmp6(_) => 8,
            BTr::Icmp6Raw { .. } => 9,
            BTr::Icmp6EchoRequest { .. } => 10,
            BTr::Icmp6EchoReply { .. } => 11,
            BTr::None => 12,
        };
        if k == tr && k != 12 {
            c.tr = t;
            return Some(c);
        }
    }
    None
}

fn is_v4(c: &BConf) -> Option<bool> {
    match &c.net {
        BNet::Ipv4 { .. } => Some(true),
        BNet::Ipv6 { .. } => Some(false),
        BNet::Ip(IpHeaders::Ipv4(..)) => Some(true),
        BNet::Ip(IpHeaders::Ipv6(..)) => Some(false),
        BNet::Arp(_) => None,
    }
}

struct ShortSink {
    v: Vec<u8>,
    /// 0: everything offered
    chunk: usize,
}

impl std::io::Write for ShortSink {
    fn write(&mut self, buf: &[u8]) -> std::io::Result<usize> {
        let n = if self.chunk == 0 { buf.len() } else { buf.len().min(self.chunk) };
        self.v.extend_from_slice(&buf[..n]);
        Ok(n)
    }
    fn flush(&mut self) -> std::io::Result<()> {
        Ok(())
    }
}

impl C10 {
    fn check(&mut self, rep: &mut Report, c: &BConf, payload: &[u8], engine: &str) {
        let ctx = format!("{:?} payload {} bytes", c, payload.len());
        rep.evals += 1;
        shell::progress_entry(1000);
        let chunk = (payload.len() + ctx.len()) % 4;
        rep.count(if chunk == 0 { "writer_door.sink_takes_all" } else { "writer_door.sink_takes_1_to_3_octets_per_call" });
        let res = shell::guarded(|| {
            let size = builder::run(c, Out::Size(payload.len()), payload);
            // `io::Write::write` may take fewer octets than offered: in three cases of four the
            // sink of the `write` door accepts at most 1 - 3 octets per call
            let mut sink = ShortSink { v: Vec::new(), chunk };
            let r1 = builder::run(c, Out::Writer(&mut sink), payload);
            let v1 = sink.v;
            let mut v2: Vec<u8> = Vec::new();
            let r2 = builder::run(c, Out::Vec(&mut v2), payload);
            let n = match size {
                BResult::Size(n) => n,
                _ => 0,
            };
            let mut v3 = vec![0xEEu8; n + 7];
            let r3 = builder::run(c, Out::Slice(&mut v3[..]), payload);
            (size, r1, v1, r2, v2, r3, v3)
        });
        let (size, r1, v1, r2, v2, r3, v3) = match res {
            Ok(x) => x,
            Err(p) => {
                rep.violation(
                    &format!("panic|PacketBuilder|{}", p.location()),
                    format!("{}: the builder panicked: {}", ctx, p.0),
                    &[],
                );
                return;
            }
        };
        if let BResult::ConfigErr(_) = &r1 {
            rep.count("config_rejected_while_building");
            return;
        }
        let n = match size {
            BResult::Size(n) => n,
            _ => {
                rep.selfcheck_fail(format!("size() did not return a size: {:?}", size));
                return;
            }
        };
        // encodability oracle (field widths): IPv4 total length / IPv6 payload length 16 bit
        let v4 = is_v4(c);
        let too_big = match v4 {
            Some(true) => n - link_len(c) > 65535,
            Some(false) => n - link_len(c) - 40 > 65535,
            None => false,
        };
        let icmp6_in_v4 = v4 == Some(true)
            && matches!(c.tr, BTr::Icmp6(_) | BTr::Icmp6Raw { .. } | BTr::Icmp6EchoRequest { .. } | BTr::Icmp6EchoReply { .. });
        let expect_err = too_big || icmp6_in_v4;
        if expect_err {
            let all_err = matches!(r1, BResult::Err(..)) && matches!(r2, BResult::Err(..)) && matches!(r3, BResult::Err(..));
            if !all_err {
                rep.violation(
                    &format!("unencodable_accepted|{}", if too_big { "payload_too_large" } else { "icmpv6_in_ipv4" }),
                    format!("{}: write -> {:?}, write_to_vec -> {:?}, write_to_slice -> {:?}", ctx, r1.class(), r2.class(), r3.class()),
                    &v1,
                );
            } else {
                let want = if icmp6_in_v4 && !too_big { "Icmpv6InIpv4" } else { "PayloadLen" };
                let classes = [r1.class(), r2.class(), r3.class()];
                if !too_big && classes.iter().any(|c| c != want) {
                    rep.violation(
                        &format!("unencodable_wrong_error|{}", want),
                        format!("{}: errors {:?}", ctx, classes),
                        &[],
                    );
                } else {
                    rep.count(&format!("unencodable_rejected.{}", want));
                }
            }
            return;
        }
        // all three writers succeed with identical bytes of the announced size
        if r1 != BResult::Ok || r2 != BResult::Ok || r3 != BResult::OkSlice(n) {
            rep.violation(
                &format!("encodable_rejected|{}|{}|{}", r1.class(), r2.class(), r3.class()),
                format!("{}: size {}: write -> {:?}, write_to_vec -> {:?}, write_to_slice -> {:?}", ctx, n, r1, r2, r3),
                &v1,
            );
            return;
        }
        if v1.len() != n {
            rep.violation("size_vs_written", format!("{}: size() = {} but {} bytes were written", ctx, n, v1.len()), &v1);
            return;
        }
        if v1 != v2 || v1[..] != v3[..n] || v3[n..].iter().any(|b| *b != 0xEE) {
            rep.violation("writers_differ", format!("{}: write / write_to_vec / write_to_slice produce different bytes", ctx), &v1);
            return;
        }
        rep.count("three_writers_identical");
        self.judge_bytes(rep, c, payload, &v1, &ctx);
        rep.sig(&format!(
            "{}|{}|{}|{}|{}",
            engine,
            std::mem::discriminant(&c.link) == std::mem::discriminant(&BLink::None),
            match &c.vlan {
                BVlan::None => 0,
                BVlan::Single(_) | BVlan::SingleHeader { .. } => 1,
                _ => 2,
            },
            match &c.net {
                BNet::Ipv4 { .. } => "v4",
                BNet::Ipv6 { .. } => "v6",
                BNet::Ip(IpHeaders::Ipv4(_, e)) => {
                    if e.auth.is_some() {
                        "ip4+ah"
                    } else {
                        "ip4"
                    }
                }
                BNet::Ip(IpHeaders::Ipv6(_, e)) => {
                    if e.is_empty() {
                        "ip6"
                    } else {
                        "ip6+ext"
                    }
                }
                BNet::Arp(_) => "arp",
            },
            format!("{:?}", std::mem::discriminant(&c.tr))
        ));
        if rep.want_sample() && v1.len() < 120 && !matches!(c.link, BLink::None) {
            rep.sample(format!("{{\"builder\":{},\"bytes_hex\":{}}}", jstr(&ctx), jstr(&hex(&v1))));
        }
    }

    fn judge_bytes(&mut self, rep: &mut Report, c: &BConf, payload: &[u8], b: &[u8], ctx: &str) {
        let start = match c.link {
            BLink::None => Start::Ip,
            BLink::Eth { .. } => Start::Eth,
            BLink::Sll { .. } => Start::Sll,
        };
        // payload the message type admits: ICMPv4 timestamp messages must be exactly 20 bytes
        let ts_raw = matches!(&c.tr, BTr::Icmp4Raw { ty, code, .. } if (*ty == 13 || *ty == 14) && *code == 0);
        let ts_typed = matches!(&c.tr, BTr::Icmp4(Icmpv4Type::TimestampRequest(_)) | BTr::Icmp4(Icmpv4Type::TimestampReply(_)));
        if (ts_raw && payload.len() != 12) || (ts_typed && !payload.is_empty()) {
            rep.count("payload_not_admitted_by_message_type");
            return;
        }
        let r = rdecode(b, start, Mode::Strict, ExtMode::Slice);
        if let Some(f) = &r.fault {
            rep.violation(
                &format!("reference_decoder_rejects|{:?}", f.kind),
                format!("{}: the emitted bytes are not a well-formed packet: {}", ctx, f.describe()),
                b,
            );
            return;
        }
        // the crate's own strict parser accepts them and agrees with the reference decoder
        match run_family(Family::Sliced, start, b, false) {
            Ok(d) => {
                if let Some(e) = &d.whole.out.err {
                    rep.violation(&format!("own_parser_rejects|{}", e.class()), format!("{}: SlicedPacket rejects the emitted bytes: {:?}", ctx, e), b);
                    return;
                }
                if let Some((sig, detail)) = diff_layers("reference", &r.layers, "etherparse", &d.whole.out.layers) {
                    rep.violation(&format!("own_parser_differs|{}", sig), format!("{}: {}", ctx, detail), b);
                    return;
                }
            }
            Err(p) => {
                note_abnormal(rep, "SlicedPacket", &p);
                return;
            }
        }
        // layer sequence as configured
        let mut want: Vec<Kind> = Vec::new();
        match c.link {
            BLink::Eth { .. } => want.push(Kind::Eth),
            BLink::Sll { .. } => want.push(Kind::Sll),
            BLink::None => {}
        }
        match &c.vlan {
            BVlan::None => {}
            BVlan::Single(_) | BVlan::SingleHeader { .. } => want.push(Kind::Vlan),
            _ => {
                want.push(Kind::Vlan);
                want.push(Kind::Vlan);
            }
        }
        let mut ext_kinds: Vec<Kind> = Vec::new();
        let v4 = is_v4(c);
        match &c.net {
            BNet::Arp(_) => want.push(Kind::Arp),
            BNet::Ipv4 { .. } => want.push(Kind::Ipv4),
            BNet::Ipv6 { .. } => want.push(Kind::Ipv6),
            BNet::Ip(IpHeaders::Ipv4(_, e)) => {
                want.push(Kind::Ipv4);
                if e.auth.is_some() {
                    ext_kinds.push(Kind::ExtAh);
                }
            }
            BNet::Ip(IpHeaders::Ipv6(_, e)) => {
                want.push(Kind::Ipv6);
                if e.hop_by_hop_options.is_some() {
                    ext_kinds.push(Kind::ExtHbh);
                }
                if e.destination_options.is_some() {
                    ext_kinds.push(Kind::ExtDest);
                }
                if let Some(r) = &e.routing {
                    ext_kinds.push(Kind::ExtRoute);
                    let _ = r;
                }
                if e.fragment.is_some() {
                    ext_kinds.push(Kind::ExtFrag);
                }
                if e.auth.is_some() {
                    ext_kinds.push(Kind::ExtAh);
                }
                if let Some(r) = &e.routing {
                    if r.final_destination_options.is_some() {
                        ext_kinds.push(Kind::ExtDest);
                    }
                }
            }
        }
        want.extend(ext_kinds.iter().cloned());
        let tr_kind = match &c.tr {
            BTr::Udp { .. } => Some(Kind::Udp),
            BTr::Tcp(_) | BTr::TcpHeader(_) => Some(Kind::Tcp),
            BTr::Icmp4(_) | BTr::Icmp4Raw { .. } | BTr::Icmp4EchoRequest { .. } | BTr::Icmp4EchoReply { .. } => Some(Kind::Icmp4),
            BTr::Icmp6(_) | BTr::Icmp6Raw { .. } | BTr::Icmp6EchoRequest { .. } | BTr::Icmp6EchoReply { .. } => Some(Kind::Icmp6),
            _ => None,
        };
        if let Some(k) = tr_kind {
            want.push(k);
        }
        let got: Vec<Kind> = r.layers.iter().map(|l| l.kind).collect();
        if got != want {
            rep.violation(
                "layer_sequence",
                format!("{}: the emitted bytes decode to {:?} but the configuration is {:?} (a derived ether type / protocol number names the wrong layer, or the RFC 8200 order is broken)", ctx, got, want),
                b,
            );
            return;
        }
        let layer = |k: Kind, nth: usize| r.layers.iter().filter(|l| l.kind == k).nth(nth);
        let mut bad: Option<(String, String)> = None;
        let mut expect = |what: &str, ok: bool, detail: String| {
            if !ok && bad.is_none() {
                bad = Some((what.to_string(), detail));
            }
        };
        // link
        if let BLink::Eth { src, dst } = &c.link {
            let l = layer(Kind::Eth, 0).unwrap();
            expect("eth.src", blob(l, "src") == src, format!("source {}", hex(blob(l, "src"))));
            expect("eth.dst", blob(l, "dst") == dst, format!("destination {}", hex(blob(l, "dst"))));
        }
        if let BLink::Sll { ptype, alen, addr } = &c.link {
            let l = layer(Kind::Sll, 0).unwrap();
            expect("sll.ptype", l.get("ptype") == Some((*ptype & 7) as u128), format!("{:?}", l.get("ptype")));
            expect("sll.alen", l.get("alen") == Some(*alen as u128), format!("{:?}", l.get("alen")));
            expect("sll.addr", blob(l, "addr") == addr, hex(blob(l, "addr")));
            expect("sll.hrd", l.get("hrd") == Some(1), format!("{:?}", l.get("hrd")));
        }
        // vlan ids
        let vids: Vec<(Option<u8>, Option<bool>, u16)> = match &c.vlan {
            BVlan::None => vec![],
            BVlan::Single(v) => vec![(Some(0), Some(false), v & 0x0fff)],
            BVlan::Double(o, i) => vec![(Some(0), Some(false), o & 0x0fff), (Some(0), Some(false), i & 0x0fff)],
            BVlan::SingleHeader { pcp, dei, vid } => vec![(Some(pcp & 7), Some(*dei), vid & 0x0fff)],
            BVlan::DoubleHeader { outer, inner } => vec![
                (Some(outer.0 & 7), Some(outer.1), outer.2 & 0x0fff),
                (Some(inner.0 & 7), Some(inner.1), inner.2 & 0x0fff),
            ],
        };
        for (i, (pcp, dei, vid)) in vids.iter().enumerate() {
            let l = layer(Kind::Vlan, i).unwrap();
            expect("vlan.vid", l.get("vid") == Some(*vid as u128), format!("vlan {} id {:?} vs {}", i, l.get("vid"), vid));
            expect("vlan.pcp", l.get("pcp") == pcp.map(|x| x as u128), format!("{:?}", l.get("pcp")));
            expect("vlan.dei", l.get("dei") == dei.map(|x| x as u128), format!("{:?}", l.get("dei")));
        }
        if vids.len() == 2 {
            // IEEE 802.1ad: outer tag = service tag 0x88A8, inner = customer tag 0x8100
            let e = layer(Kind::Eth, 0).unwrap();
            expect("double_vlan.outer_tpid", e.get("ety") == Some(0x88a8), format!("{:x?}", e.get("ety")));
            let o = layer(Kind::Vlan, 0).unwrap();
            expect("double_vlan.inner_tpid", o.get("ety") == Some(0x8100), format!("{:x?}", o.get("ety")));
        }
        // net
        let mut src4 = [0u8; 4];
        let mut dst4 = [0u8; 4];
        let mut src6 = [0u8; 16];
        let mut dst6 = [0u8; 16];
        match &c.net {
            BNet::Arp(a) => {
                let l = layer(Kind::Arp, 0).unwrap();
                expect("arp.bytes", b[l.off..] == a.to_bytes()[..], "ARP packet bytes".into());
            }
            _ => {}
        }
        if let Some(l) = layer(Kind::Ipv4, 0) {
            let (s, d, ttl): (Vec<u8>, Vec<u8>, u8) = match &c.net {
                BNet::Ipv4 { src, dst, ttl } => (src.to_vec(), dst.to_vec(), *ttl),
                BNet::Ip(IpHeaders::Ipv4(h, _)) => (h.source.to_vec(), h.destination.to_vec(), h.time_to_live),
                _ => (vec![], vec![], 0),
            };
            expect("ipv4.src", blob(l, "src") == &s[..], hex(blob(l, "src")));
            expect("ipv4.dst", blob(l, "dst") == &d[..], hex(blob(l, "dst")));
            expect("ipv4.ttl", l.get("ttl") == Some(ttl as u128), format!("{:?}", l.get("ttl")));
            expect(
                "ipv4.total_len",
                l.get("total_len") == Some((b.len() - l.off) as u128),
                format!("total length {:?} but the packet has {} bytes behind the link layer", l.get("total_len"), b.len() - l.off),
            );
            let hl = 4 * l.get("ihl").unwrap() as usize;
            let want = rc::ipv4_header(&b[l.off..l.off + hl]);
            expect("ipv4.header_checksum", l.get("csum") == Some(want as u128), format!("header checksum {:x?} vs RFC 791 {:04x}", l.get("csum"), want));
            if let BNet::Ip(IpHeaders::Ipv4(h, _)) = &c.net {
                expect("ipv4.options", blob(l, "options") == h.options.as_slice(), hex(blob(l, "options")));
                expect("ipv4.id", l.get("id") == Some(h.identification as u128), format!("{:?}", l.get("id")));
                expect("ipv4.dscp", l.get("dscp") == Some(h.dscp.value() as u128), format!("{:?}", l.get("dscp")));
                expect("ipv4.df", l.get("df") == Some(h.dont_fragment as u128), format!("{:?}", l.get("df")));
            }
            src4.copy_from_slice(blob(l, "src"));
            dst4.copy_from_slice(blob(l, "dst"));
        }
        if let Some(l) = layer(Kind::Ipv6, 0) {
            let (s, d, hop): (Vec<u8>, Vec<u8>, u8) = match &c.net {
                BNet::Ipv6 { src, dst, hop } => (src.to_vec(), dst.to_vec(), *hop),
                BNet::Ip(IpHeaders::Ipv6(h, _)) => (h.source.to_vec(), h.destination.to_vec(), h.hop_limit),
                _ => (vec![], vec![], 0),
            };
            expect("ipv6.src", blob(l, "src") == &s[..], hex(blob(l, "src")));
            expect("ipv6.dst", blob(l, "dst") == &d[..], hex(blob(l, "dst")));
            expect("ipv6.hop", l.get("hop") == Some(hop as u128), format!("{:?}", l.get("hop")));
            expect(
                "ipv6.payload_length",
                l.get("plen") == Some((b.len() - l.off - 40) as u128),
                format!("payload length {:?} but {} bytes follow the IPv6 header", l.get("plen"), b.len() - l.off - 40),
            );
            if let BNet::Ip(IpHeaders::Ipv6(h, _)) = &c.net {
                expect("ipv6.tc", l.get("tc") == Some(h.traffic_class as u128), format!("{:?}", l.get("tc")));
                expect("ipv6.flow", l.get("flow") == Some(h.flow_label.value() as u128), format!("{:?}", l.get("flow")));
            }
            src6.copy_from_slice(blob(l, "src"));
            dst6.copy_from_slice(blob(l, "dst"));
        }
        // extension headers recovered (contents)
        if let BNet::Ip(h) = &c.net {
            let mut img = Vec::new();
            match h {
                IpHeaders::Ipv4(hh, e) => crate::observe::ls_ipv4_hdr(hh, e, &mut img),
                IpHeaders::Ipv6(hh, e) => crate::observe::ls_ipv6_hdr(hh, e, &mut img),
            }
            let cfg_exts: Vec<&NLayer> = img.iter().skip(1).collect();
            let got_exts: Vec<&NLayer> = r
                .layers
                .iter()
                .filter(|l| matches!(l.kind, Kind::ExtAh | Kind::ExtHbh | Kind::ExtRoute | Kind::ExtDest | Kind::ExtFrag))
                .collect();
            // struct canonical order: hbh, dest, route, final dest, frag, auth; wire: RFC 8200
            for ce in &cfg_exts {
                let found = got_exts.iter().any(|g| {
                    g.kind == ce.kind
                        && g.b.iter().all(|(n, v)| ce.get_blob(n).map(|x| x == &v[..]).unwrap_or(true))
                        && ["spi", "seq", "len", "frag_off", "mf", "id"].iter().all(|f| ce.get(f).is_none() || ce.get(f) == g.get(f))
                });
                expect(&format!("ext.{:?}", ce.kind), found, format!("extension header {:?} of the configuration not found unchanged in the bytes", ce.kind));
            }
        }
        // transport + payload
        let tl = tr_kind.and_then(|k| layer(k, 0));
        let pay_off = r.payload.off;
        expect(
            "payload",
            // (an ICMPv4 timestamp message has no payload: the 12 supplied bytes are its three
            // timestamps and belong to the 20 byte message)
            r.payload.off + r.payload.len == b.len() && (&b[pay_off..] == payload || (ts_raw && b.ends_with(payload)))
                || matches!(c.net, BNet::Arp(_)),
            format!("payload recovered @{}+{} differs from the supplied {} bytes", r.payload.off, r.payload.len, payload.len()),
        );
        if let (Some(l), Some(k)) = (tl, tr_kind) {
            let seg = &b[l.off..];
            match k {
                Kind::Udp => {
                    if let BTr::Udp { sp, dp } = &c.tr {
                        expect("udp.ports", l.get("sport") == Some(*sp as u128) && l.get("dport") == Some(*dp as u128), "ports".into());
                    }
                    expect("udp.length", l.get("len") == Some((8 + payload.len()) as u128), format!("UDP length {:?} vs {}", l.get("len"), 8 + payload.len()));
                    let want = if v4 == Some(true) { rc::udp_v4(src4, dst4, &seg[..8], payload) } else { rc::udp_v6(src6, dst6, &seg[..8], payload) };
                    expect("udp.checksum", l.get("csum") == Some(want as u128), format!("UDP checksum {:x?} vs RFC 768 {:04x}", l.get("csum"), want));
                    expect("udp.checksum_zero", l.get("csum") != Some(0), "a computed UDP checksum was transmitted as 0".into());
                }
                Kind::Tcp => {
                    let hl = 4 * l.get("doff").unwrap() as usize;
                    let want = if v4 == Some(true) { rc::tcp_v4(src4, dst4, &seg[..hl], payload) } else { rc::tcp_v6(src6, dst6, &seg[..hl], payload) };
                    expect("tcp.checksum", want.map(|w| w as u128) == l.get("csum"), format!("TCP checksum {:x?} vs RFC 9293 {:04x?}", l.get("csum"), want));
                    if let BTr::Tcp(t) = &c.tr {
                        expect("tcp.ports", l.get("sport") == Some(t.sp as u128) && l.get("dport") == Some(t.dp as u128), "ports".into());
                        expect("tcp.seq", l.get("seq") == Some(t.seq as u128), "sequence number".into());
                        expect("tcp.win", l.get("win") == Some(t.win as u128), "window".into());
                        for (n, v) in [("ns", t.ns), ("fin", t.fin), ("syn", t.syn), ("rst", t.rst), ("psh", t.psh), ("ece", t.ece), ("cwr", t.cwr), ("ackf", t.ack.is_some()), ("urg", t.urg.is_some())] {
                            expect(&format!("tcp.flag.{}", n), l.get(n) == Some(v as u128), format!("flag {} = {:?}, configured {}", n, l.get(n), v));
                        }
                        if let Some(a) = t.ack {
                            expect("tcp.ack", l.get("ack") == Some(a as u128), "acknowledgment number".into());
                        }
                        if let Some(u) = t.urg {
                            expect("tcp.urgp", l.get("urgp") == Some(u as u128), "urgent pointer".into());
                        }
                        if let Some(raw) = &t.options_raw {
                            let o = blob(l, "options");
                            expect("tcp.options_raw", o.len() >= raw.len() && &o[..raw.len()] == &raw[..] && o[raw.len()..].iter().all(|x| *x == 0) && o.len() == (raw.len() + 3) / 4 * 4, hex(o));
                        } else if let Some(el) = t.options.as_ref().or(t.pre_options.as_ref()) {
                            if t.options.is_some() && t.pre_options.is_some() {
                                rep.count("tcp.options_replaced_by_second_call");
                            }
                            // compare through the independent reference encoder of the options
                            let re: Vec<crate::refmodel::tcpopts::ROpt> = el.iter().map(to_ref_elem).collect();
                            let enc = crate::refmodel::tcpopts::encode(&re);
                            let o = blob(l, "options");
                            expect("tcp.options", o.len() >= enc.len() && o[..enc.len()] == enc[..] && o[enc.len()..].iter().all(|x| *x == 0), hex(o));
                        } else {
                            expect("tcp.no_options", blob(l, "options").is_empty(), hex(blob(l, "options")));
                        }
                    }
                    if let BTr::TcpHeader(h) = &c.tr {
                        expect("tcp_header.fields", l.get("sport") == Some(h.source_port as u128) && l.get("seq") == Some(h.sequence_number as u128) && l.get("ack") == Some(h.acknowledgment_number as u128) && l.get("urgp") == Some(h.urgent_pointer as u128), "tcp_header fields".into());
                    }
                }
                Kind::Icmp4 => {
                    let want = rc::icmpv4(seg);
                    expect("icmpv4.checksum", l.get("csum") == Some(want as u128), format!("ICMP checksum {:x?} vs RFC 792 {:04x}", l.get("csum"), want));
                    match &c.tr {
                        BTr::Icmp4Raw { ty, code, b58 } => {
                            expect("icmpv4_raw", l.get("ty") == Some(*ty as u128) && l.get("code") == Some(*code as u128) && blob(l, "~b58") == b58, "type/code/bytes5to8".into())
                        }
                        BTr::Icmp4EchoRequest { id, seq } | BTr::Icmp4EchoReply { id, seq } => {
                            let ty = if matches!(c.tr, BTr::Icmp4EchoRequest { .. }) { 8 } else { 0 };
                            let mut w = id.to_be_bytes().to_vec();
                            w.extend_from_slice(&seq.to_be_bytes());
                            expect("icmpv4_echo", l.get("ty") == Some(ty) && l.get("code") == Some(0) && blob(l, "~b58") == &w[..], "echo type/id/seq".into());
                        }
                        _ => {}
                    }
                }
                Kind::Icmp6 => {
                    let want = rc::icmpv6(src6, dst6, seg);
                    let ok = if v4 == Some(false) { want.map(|w| w as u128) == l.get("csum") } else { true };
                    expect("icmpv6.checksum", ok, format!("ICMPv6 checksum {:x?} vs RFC 4443 {:04x?}", l.get("csum"), want));
                    match &c.tr {
                        BTr::Icmp6Raw { ty, code, b58 } => {
                            expect("icmpv6_raw", l.get("ty") == Some(*ty as u128) && l.get("code") == Some(*code as u128) && blob(l, "~b58") == b58, "type/code/bytes5to8".into())
                        }
                        BTr::Icmp6EchoRequest { id, seq } | BTr::Icmp6EchoReply { id, seq } => {
                            let ty = if matches!(c.tr, BTr::Icmp6EchoRequest { .. }) { 128 } else { 129 };
                            let mut w = id.to_be_bytes().to_vec();
                            w.extend_from_slice(&seq.to_be_bytes());
                            expect("icmpv6_echo", l.get("ty") == Some(ty) && l.get("code") == Some(0) && blob(l, "~b58") == &w[..], "echo type/id/seq".into());
                        }
                        _ => {}
                    }
                }
                _ => {}
            }
        }
        if let BTr::Raw(nr) = &c.tr {
            // raw write: the given number ends the chain
            let ipl = layer(Kind::Ipv4, 0).or(layer(Kind::Ipv6, 0)).unwrap();
            expect("raw.ip_number", ipl.get("pay_num") == Some(*nr as u128), format!("payload protocol {:?} vs {}", ipl.get("pay_num"), nr));
        }
        match bad {
            Some((what, detail)) => rep.violation(&format!("field|{}", what), format!("{}: {}", ctx, detail), b),
            None => {
                rep.count("consistent_packets");
                if let Some(k) = tr_kind {
                    rep.count(&format!("consistent.{:?}.{}", k, if v4 == Some(true) { "v4" } else { "v6" }));
                }
            }
        }
    }
}

fn to_ref_elem(e: &TcpOptionElement) -> crate::refmodel::tcpopts::ROpt {
    use crate::refmodel::tcpopts::ROpt as Elem;
    match e {
        TcpOptionElement::Noop => Elem::Nop,
        TcpOptionElement::MaximumSegmentSize(v) => Elem::Mss(*v),
        TcpOptionElement::WindowScale(v) => Elem::WScale(*v),
        TcpOptionElement::SelectiveAcknowledgementPermitted => Elem::SackPerm,
        TcpOptionElement::SelectiveAcknowledgement(f, rest) => {
            let mut v = vec![*f];
            for r in rest.iter().flatten() {
                v.push(*r);
            }
            Elem::Sack(v)
        }
        TcpOptionElement::Timestamp(a, b) => Elem::Ts(*a, *b),
    }
}

fn link_len(c: &BConf) -> usize {
    (match c.link {
        BLink::None => 0,
        BLink::Eth { .. } => 14,
        BLink::Sll { .. } => 16,
    }) + match c.vlan {
        BVlan::None => 0,
        BVlan::Single(_) | BVlan::SingleHeader { .. } => 4,
        _ => 8,
    }
}

impl Monitor for C10 {
    fn engines(&self, tier: Tier) -> Vec<(&'static str, u64)> {
        vec![
            ("paths", PATHS * tier.pick(400, 60_000)),
            ("random", tier.pick(1_500_000, 225_000_000)),
            ("limits", tier.pick(6_000, 600_000)),
        ]
    }

    fn run_case(&mut self, engine: &str, idx: u64, rng: &mut Prng, rep: &mut Report) {
        let payload_len = |rng: &mut Prng| -> usize {
            match rng.below(8) {
                0 => 0,
                1 => rng.range(0, 9) as usize,
                2 => 12,
                3 => rng.range(0, 40) as usize | 1,
                4 => rng.range(0, 40) as usize & !1,
                5 => rng.range(0, 2000) as usize,
                6 => 8 * rng.range(4, 40) as usize,
                _ => rng.range(0, 120) as usize,
            }
        };
        // contents: random, or words of all ones mixed with small numbers (sums that sit at the
        // multiples of 2^32 / 2^64, where a checksum accumulator that mishandles a carry shows)
        let payload = |rng: &mut Prng, rep: &mut Report, n: usize| -> Vec<u8> {
            match rng.below(8) {
                0 => {
                    rep.count("payloads.all_ones");
                    vec![0xffu8; n]
                }
                1 | 2 => {
                    rep.count("payloads.carry_stress");
                    super::c09::carry_stress(if rng.bool() { 4 } else { 8 }, n, rng)
                }
                _ => rng.bytes(n),
            }
        };
        match engine {
            "paths" => {
                let path = idx % PATHS;
                if let Some(c) = conf_for_path(path, rng) {
                    rep.count("paths.configs");
                    let n = payload_len(rng);
                    let p = payload(rng, rep, n);
                    self.check(rep, &c, &p, engine);
                } else {
                    rep.count("paths.not_constructible");
                }
            }
            "random" => {
                let c = builder::rand_conf(rng);
                let n = payload_len(rng);
                let p = payload(rng, rep, n);
                self.check(rep, &c, &p, engine);
            }
            "limits" => {
                // payload lengths at the field limits +-2
                let mut c = builder::rand_conf(rng);
                if matches!(c.net, BNet::Arp(_)) {
                    return;
                }
                if rng.bool() {
                    c.vlan = BVlan::None;
                }
                let size0 = match builder::run(&c, Out::Size(0), &[]) {
                    BResult::Size(n) => n,
                    _ => return,
                };
                let ll = link_len(&c);
                let v4 = is_v4(&c) == Some(true);
                let limit = if v4 { 65535 - (size0 - ll) } else { 65535 + 40 - (size0 - ll) };
                let d = rng.range(0, 4) as i64 - 2;
                let n = (limit as i64 + d).max(0) as usize;
                let p = vec![0x5au8; n];
                rep.count(if d > 0 { "limits.above" } else { "limits.at_or_below" });
                self.check(rep, &c, &p, engine);
            }
            _ => {}
        }
    }
}
