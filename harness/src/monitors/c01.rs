//! C01 — decoding never touches memory outside the slice; sub-slices inside; position independent.
//! C02 — decoders are total: no panic, abort, overflow, hang; iterators bounded.
//!
//! Both are decided by the same workload (every decoding entry point x full accessor closure)
//! running under instruments; the monitor here contributes
//!   * C01: containment of every returned slice, equality of everything observable (all field
//!     values, all Debug/Display renderings, all returned bytes — folded into a hash) across four
//!     placements of the same bytes (end-aligned at a PROT_NONE page, start-aligned behind one,
//!     two odd offsets between different fillers),
//!   * C02: panics caught by the shell, iterator step budgets.
//! Fatal signals / aborts (guard page, core's unsafe-precondition checks, ASan, Miri, memcheck)
//! are seen by the supervisor (driver/check.py) through the progress word.

use super::common::*;
use super::{Monitor, Tier};
use crate::arena::{Placement, Placer, PLACEMENTS};
use crate::gen::{self, GenOpts, StartSel};
use crate::observe::entry::{self, FAMILIES};
use crate::observe::exhaust;
use crate::observe::iplevel::{self, IP_ENTRIES};
use crate::observe::single::HEADERS;
use crate::observe::Cx;
use crate::prng::Prng;
use crate::refmodel::pkt::Start;
use crate::report::Report;
use crate::shell;
use etherparse::checksum;
use etherparse::icmpv6::*;
use etherparse::*;
use std::io::Cursor;

#[derive(Clone, Copy, PartialEq, Eq)]
pub enum Which {
    C01,
    C02,
}

pub struct C01 {
    which: Which,
    placer: Placer,
    placements: Vec<Placement>,
    sparse_render: bool,
}

impl C01 {
    pub fn new(which: Which, flavour: &str) -> C01 {
        let heap = matches!(flavour, "asan" | "vg" | "miri");
        C01 {
            which,
            placer: Placer::new(70_000, heap),
            sparse_render: matches!(flavour, "miri"),
            // C02 does not compare placements: the end-aligned one is the most hostile
            placements: if which == Which::C01 && !matches!(flavour, "miri" | "vg") {
                PLACEMENTS.to_vec()
            } else {
                vec![Placement::End]
            },
        }
    }
}

/// what one call observed: (hash of everything rendered, bytes rendered, accessor calls,
/// sub-slices checked, containment failures, budget exceeded)
thread_local! {
    /// behaviour signature of the last call (set by the closures that know one)
    static LAST_SIG: std::cell::Cell<u64> = const { std::cell::Cell::new(0) };
}

fn set_sig(s: &str) {
    LAST_SIG.with(|c| c.set(crate::prng::hash_str(s)));
}

struct Obs {
    hash: u64,
    rendered: u64,
    calls: u64,
    subs: u64,
    bad: Vec<String>,
    budget: bool,
}

impl C01 {
    /// runs `f` on every placement of `bytes`; judges containment, position independence
    /// (C01) and panics / budgets (C02)
    fn drive<F>(&mut self, rep: &mut Report, name: &str, id: u64, bytes: &[u8], f: F)
    where
        F: Fn(&[u8], &mut Cx) -> bool,
    {
        let mut first: Option<(u64, u64)> = None;
        let placements = self.placements.clone();
        for p in placements {
            let input = self.placer.place(bytes, p);
            shell::progress_entry(id);
            exhaust::sink_reset();
            LAST_SIG.with(|c| c.set(0));
            rep.evals += 1;
            let r = shell::guarded(|| {
                let mut cx = Cx::new(input);
                let ok = f(input, &mut cx);
                let (hash, rendered) = exhaust::sink_hash();
                Obs {
                    hash,
                    rendered,
                    calls: cx.accessor_calls,
                    subs: cx.sub_slices,
                    bad: std::mem::take(&mut cx.bad),
                    budget: !ok,
                }
            });
            match r {
                Ok(o) => {
                    rep.add("accessor_calls", o.calls);
                    rep.add("sub_slices_checked", o.subs);
                    rep.add("bytes_rendered", o.rendered);
                    let sg = LAST_SIG.with(|c| c.get());
                    if sg != 0 {
                        rep.sig_hash(sg ^ crate::prng::hash_str(name));
                    }
                    match self.which {
                        Which::C01 => {
                            if !o.bad.is_empty() {
                                rep.violation(
                                    &format!("containment|{}", name),
                                    format!("{}: returned slice outside the input: {}", name, o.bad.join("; ")),
                                    bytes,
                                );
                            }
                            match first {
                                None => first = Some((o.hash, o.rendered)),
                                Some(h) => {
                                    rep.count("placements_compared");
                                    if h != (o.hash, o.rendered) {
                                        rep.violation(
                                            &format!("position_dependent|{}", name),
                                            format!(
                                                "{}: the observable result differs between placement End and {:?} of the same bytes (hash {:x}/{} vs {:x}/{})",
                                                name, p, h.0, h.1, o.hash, o.rendered
                                            ),
                                            bytes,
                                        );
                                    }
                                }
                            }
                        }
                        Which::C02 => {
                            if o.budget {
                                rep.violation(
                                    &format!("iterator_budget|{}", name),
                                    format!("{}: an iterator yielded more items than its byte budget allows, produced an item after it was exhausted, or its size_hint() did not bracket the items still to come", name),
                                    bytes,
                                );
                            }
                        }
                    }
                }
                Err(p) => match self.which {
                    Which::C02 => {
                        rep.violation(
                            &format!("panic|{}|{}", name, p.location()),
                            format!("{}: panicked: {}", name, p.0),
                            bytes,
                        );
                    }
                    Which::C01 => {
                        rep.count("skipped_panic");
                        rep.note(&format!("NOTE panic in {} ({}) — judged by C02", name, p.location()));
                    }
                },
            }
        }
        rep.count(&format!("entry.{}", name));
    }

    fn whole(&mut self, rep: &mut Report, start: Start, bytes: &[u8]) {
        for f in FAMILIES {
            if !f.supports(start) {
                continue;
            }
            let name = f.name(start);
            self.drive(rep, name, entry_id(f, start), bytes, |input, cx| {
                let w = entry::decode(f, start, input, cx, true);
                if nontrivial(&w.out) || w.out.err.is_some() {
                    set_sig(&w.out.signature());
                }
                exhaust::SINK.with(|s| {
                    let mut s = s.borrow_mut();
                    s.dbg(&w.out);
                    s.dbg(&w.pay);
                });
                !w.budget_exceeded
            });
        }
        if rep.want_sample() && bytes.len() > 40 && bytes.len() < 120 {
            rep.sample(sample("closure over all four decoder families", start, bytes, "held"));
        }
    }

    fn ip_level(&mut self, rep: &mut Report, bytes: &[u8]) {
        for e in IP_ENTRIES {
            self.drive(rep, e.name(), e.id(), bytes, |input, cx| {
                let o = iplevel::decode(e, input, cx, true);
                set_sig(&o.out.signature());
                exhaust::SINK.with(|s| {
                    let mut s = s.borrow_mut();
                    s.dbg(&o.out);
                    s.dbg(&o.pay);
                });
                !o.budget_exceeded
            });
        }
    }

    /// Results whose parts are public (`IpHeadersSlice::{Ipv4,Ipv6}(header, exts)`, the fields of
    /// `SlicedPacket` / `LaxSlicedPacket`) can be assembled by the caller from two independently
    /// decoded packets. Every part is a validated view, so every method of the assembled value
    /// still has to return normally and stay inside the bytes of its parts.
    fn mixed(&mut self, rep: &mut Report, rng: &mut Prng) {
        let lie = if rng.chance(2, 3) { gen::Lie::None } else { gen::Lie::Any };
        let which = rng.below(3);
        let (a, b) = match which {
            0 => (gen::gen_ipv6(rng, lie).bytes, gen::gen_ipv6(rng, lie).bytes),
            1 => (gen::gen_ipv4(rng, lie).bytes, gen::gen_ipv4(rng, lie).bytes),
            _ => {
                let mut o = if lie == gen::Lie::None { GenOpts::clean() } else { GenOpts::hostile() };
                o.start = StartSel::Eth;
                (gen::gen_case(rng, &o).bytes, gen::gen_case(rng, &o).bytes)
            }
        };
        let n = a.len();
        let mut cat = a;
        cat.extend_from_slice(&b);
        match which {
            0 => self.drive(rep, "IpHeadersSlice::Ipv6 assembled from two packets", 9101, &cat, move |input, cx| {
                let (x, y) = input.split_at(n);
                let (Ok((sx, _)), Ok((sy, _))) = (LaxIpv6Slice::from_slice(x), LaxIpv6Slice::from_slice(y)) else {
                    return true;
                };
                set_sig(&format!("{:?}|{:?}", sx.header().next_header(), sy.extensions().first_header()));
                exhaust::ip_headers_slice(cx, &IpHeadersSlice::from((sx.header(), sy.extensions().clone())));
                exhaust::ip_headers_slice(cx, &IpHeadersSlice::Ipv6(sy.header(), sx.extensions().clone()));
                exhaust::ip_headers_slice(cx, &IpHeadersSlice::from(sx.header()));
                true
            }),
            1 => self.drive(rep, "IpHeadersSlice::Ipv4 assembled from two packets", 9102, &cat, move |input, cx| {
                let (x, y) = input.split_at(n);
                let (Ok((sx, _)), Ok((sy, _))) = (LaxIpv4Slice::from_slice(x), LaxIpv4Slice::from_slice(y)) else {
                    return true;
                };
                set_sig(&format!("{:?}|{}", sx.header().protocol(), sy.extensions().auth.is_some()));
                exhaust::ip_headers_slice(cx, &IpHeadersSlice::from((sx.header(), sy.extensions())));
                exhaust::ip_headers_slice(cx, &IpHeadersSlice::Ipv4(sy.header(), sx.extensions()));
                exhaust::ip_headers_slice(cx, &IpHeadersSlice::from(sx.header()));
                true
            }),
            _ => {
                let pick = rng.below(16) as u8;
                self.drive(rep, "SlicedPacket assembled from two packets", 9103, &cat, move |input, cx| {
                    let (x, y) = input.split_at(n);
                    let mut ok = true;
                    if let (Ok(pa), Ok(pb)) = (SlicedPacket::from_ethernet(x), SlicedPacket::from_ethernet(y)) {
                        let m = SlicedPacket {
                            link: if pick & 1 == 0 { pa.link.clone() } else { pb.link.clone() },
                            link_exts: if pick & 2 == 0 { pa.link_exts.clone() } else { pb.link_exts.clone() },
                            net: if pick & 4 == 0 { pa.net.clone() } else { pb.net.clone() },
                            transport: if pick & 8 == 0 { pa.transport.clone() } else { pb.transport.clone() },
                        };
                        set_sig(&format!("s{}|{}|{}|{}", pick, m.link_exts.len(), m.net.is_some(), m.transport.is_some()));
                        ok &= exhaust::sliced_packet(cx, &m);
                    }
                    if let (Ok(pa), Ok(pb)) = (LaxSlicedPacket::from_ethernet(x), LaxSlicedPacket::from_ethernet(y)) {
                        let m = LaxSlicedPacket {
                            link: if pick & 1 == 0 { pa.link.clone() } else { pb.link.clone() },
                            link_exts: if pick & 2 == 0 { pa.link_exts.clone() } else { pb.link_exts.clone() },
                            net: if pick & 4 == 0 { pa.net.clone() } else { pb.net.clone() },
                            transport: if pick & 8 == 0 { pa.transport.clone() } else { pb.transport.clone() },
                            stop_err: if pick & 1 == 0 { pb.stop_err.clone() } else { pa.stop_err.clone() },
                        };
                        ok &= exhaust::lax_sliced_packet(cx, &m);
                    }
                    ok
                })
            }
        }
    }

    fn single(&mut self, rep: &mut Report, rng: &mut Prng) {
        let ti = rng.usize_below(HEADERS.len());
        let t = &HEADERS[ti];
        let bytes = (t.gen)(rng);
        let name_s = format!("{}::from_slice", t.name);
        let name_r = format!("{}::read", t.name);
        self.drive(rep, &name_s, 300 + ti as u64, &bytes, |input, _cx| {
            let r = (t.from_slice)(input);
            set_sig(&match &r {
                Ok(d) => format!("ok{}", d.consumed),
                Err(e) => e.class(),
            });
            exhaust::SINK.with(|s| s.borrow_mut().dbg(&r));
            true
        });
        self.drive(rep, &name_r, 400 + ti as u64, &bytes, |input, _cx| {
            let mut cur = Cursor::new(input);
            let r = (t.read)(&mut cur, input);
            set_sig(&match &r {
                Ok(d) => format!("ok{}", d.header_len),
                Err(e) => e.class(),
            });
            exhaust::SINK.with(|s| {
                let mut s = s.borrow_mut();
                s.dbg(&r);
                s.num(cur.position());
            });
            true
        });
    }

    /// single-layer slicers and typed views that are not reachable with every input through the
    /// whole-packet decoders
    fn typed(&mut self, rep: &mut Report, rng: &mut Prng) {
        let which = rng.below(12);
        match which {
            0 => {
                let n = rng.range(0, 44) as usize;
                let bytes = if rng.chance(2, 3) {
                    gen::headers::tcp_option_area(rng, n / 4 * 4)
                } else {
                    rng.bytes(n)
                };
                self.drive(rep, "TcpOptionsIterator::from_slice", 500, &bytes, |input, cx| {
                    exhaust::tcp_options_iter(cx, TcpOptionsIterator::from_slice(input), input.len())
                });
                self.drive(rep, "TcpOptions::try_from_slice", 501, &bytes, |input, cx| {
                    match TcpOptions::try_from_slice(input) {
                        Ok(o) => {
                            let mut own = Cx::new(o.as_slice());
                            let ok = exhaust::tcp_options_iter(&mut own, o.elements_iter(), o.len());
                            cx.bad.append(&mut own.bad);
                            ok
                        }
                        Err(e) => {
                            exhaust::fmt_err(cx, &e);
                            true
                        }
                    }
                });
            }
            1 => {
                let bytes = if rng.chance(3, 4) {
                    gen::headers::ndp_options(rng, 5)
                } else {
                    let n = rng.range(0, 80) as usize;
                    rng.bytes(n)
                };
                self.drive(rep, "NdpOptionsIterator::from_slice", 502, &bytes, |input, cx| {
                    exhaust::ndp_options(cx, NdpOptionsIterator::from_slice(input), input.len())
                });
                self.drive(rep, "NdpOptionHeader::from_slice", 503, &bytes, |input, cx| {
                    match NdpOptionHeader::from_slice(input) {
                        Ok((h, rest)) => {
                            cx.touch(rest, "NdpOptionHeader::from_slice rest");
                            exhaust::SINK.with(|s| s.borrow_mut().dbg(&h));
                        }
                        Err(e) => exhaust::fmt_err(cx, &e),
                    }
                    match PrefixInformation::from_slice(input) {
                        Ok(p) => exhaust::SINK.with(|s| s.borrow_mut().dbg(&p)),
                        Err(e) => exhaust::fmt_err(cx, &e),
                    }
                    true
                });
            }
            2 | 3 => {
                let b = gen::gen_icmp6(rng, gen::Lie::Any);
                let mut bytes = b.bytes;
                if rng.chance(1, 3) && !bytes.is_empty() {
                    bytes.truncate(rng.usize_below(bytes.len()));
                }
                self.drive(rep, "Icmpv6Slice::from_slice", 504, &bytes, |input, cx| match Icmpv6Slice::from_slice(input) {
                    Ok(s) => exhaust::icmpv6_slice(cx, &s),
                    Err(e) => {
                        exhaust::fmt_err(cx, &e);
                        true
                    }
                });
            }
            4 => {
                let b = gen::gen_icmp4(rng, gen::Lie::Any);
                let mut bytes = b.bytes;
                if rng.chance(1, 3) && !bytes.is_empty() {
                    bytes.truncate(rng.usize_below(bytes.len()));
                }
                self.drive(rep, "Icmpv4Slice::from_slice", 505, &bytes, |input, cx| match Icmpv4Slice::from_slice(input) {
                    Ok(s) => {
                        exhaust::icmpv4_slice(cx, &s);
                        true
                    }
                    Err(e) => {
                        exhaust::fmt_err(cx, &e);
                        true
                    }
                });
            }
            5 => {
                let n = rng.range(0, 40) as usize;
                let bytes = gen::headers::igmp_message(rng, n);
                let mut bytes = bytes;
                if rng.chance(1, 3) && !bytes.is_empty() {
                    bytes.truncate(rng.usize_below(bytes.len()));
                }
                self.drive(rep, "IgmpHeader::from_slice", 506, &bytes, |input, cx| {
                    match IgmpHeader::from_slice(input) {
                        Ok((h, rest)) => {
                            cx.touch(rest, "IgmpHeader::from_slice rest");
                            exhaust::SINK.with(|s| {
                                let mut s = s.borrow_mut();
                                s.dbg(&h);
                                s.raw(&h.to_bytes());
                                s.num(h.calc_checksum(rest) as u64);
                            });
                        }
                        Err(e) => exhaust::fmt_err(cx, &e),
                    }
                    match igmp::ReportGroupRecordV3Header::from_slice(input) {
                        Ok((h, rest)) => {
                            cx.touch(rest, "ReportGroupRecordV3Header::from_slice rest");
                            exhaust::SINK.with(|s| s.borrow_mut().dbg(&h));
                        }
                        Err(e) => exhaust::fmt_err(cx, &e),
                    }
                    true
                });
            }
            6 => {
                // checksum helpers over slices of every alignment
                let n = match rng.below(4) {
                    0 => rng.range(0, 70) as usize,
                    1 => rng.range(0, 300) as usize,
                    2 => rng.range(0, 2000) as usize,
                    _ => rng.range(0, 66_000) as usize,
                };
                let bytes = rng.bytes(n);
                self.drive(rep, "checksum::*::add_slice", 507, &bytes, |input, _cx| {
                    let a = checksum::Sum16BitWords::new().add_slice(input).ones_complement();
                    let b = checksum::u32_16bit_word::ones_complement(checksum::u32_16bit_word::add_slice(0, input));
                    let c = checksum::u64_16bit_word::ones_complement(checksum::u64_16bit_word::add_slice(0, input));
                    exhaust::SINK.with(|s| {
                        let mut s = s.borrow_mut();
                        s.num(a as u64);
                        s.num(b as u64);
                        s.num(c as u64);
                    });
                    true
                });
            }
            7 => {
                // the header slice types
                let (_, inner) = gen::gen_net(rng, gen::Lie::Any);
                let eth = gen::wrap_eth(rng, 0x0800, inner);
                let mut bytes = eth.bytes;
                if rng.chance(1, 2) && !bytes.is_empty() {
                    bytes.truncate(rng.usize_below(bytes.len().min(40)));
                }
                self.drive(rep, "link header slices", 508, &bytes, |input, cx| {
                    match Ethernet2HeaderSlice::from_slice(input) {
                        Ok(s) => {
                            cx.touch(s.slice(), "Ethernet2HeaderSlice::slice");
                            exhaust::SINK.with(|k| {
                                let mut k = k.borrow_mut();
                                k.dbg(&s);
                                k.dbg(&s.to_header());
                                k.raw(&s.destination());
                                k.raw(&s.source());
                                k.num(s.ether_type().0 as u64);
                            });
                        }
                        Err(e) => exhaust::fmt_err(cx, &e),
                    }
                    match Ethernet2Slice::from_slice_with_crc32_fcs(input) {
                        Ok(s) => {
                            cx.touch(s.slice(), "Ethernet2Slice::slice");
                            cx.touch(s.payload_slice(), "Ethernet2Slice::payload_slice");
                            exhaust::SINK.with(|k| {
                                let mut k = k.borrow_mut();
                                k.dbg(&s);
                                k.dbg(&s.fcs());
                                k.dbg(&s.payload());
                            });
                        }
                        Err(e) => exhaust::fmt_err(cx, &e),
                    }
                    match SingleVlanHeaderSlice::from_slice(input) {
                        Ok(s) => {
                            cx.touch(s.slice(), "SingleVlanHeaderSlice::slice");
                            exhaust::SINK.with(|k| {
                                let mut k = k.borrow_mut();
                                k.dbg(&s);
                                k.dbg(&s.to_header());
                            });
                        }
                        Err(e) => exhaust::fmt_err(cx, &e),
                    }
                    match LinuxSllHeaderSlice::from_slice(input) {
                        Ok(s) => {
                            cx.touch(s.slice(), "LinuxSllHeaderSlice::slice");
                            cx.touch(s.sender_address(), "LinuxSllHeaderSlice::sender_address");
                            exhaust::SINK.with(|k| {
                                let mut k = k.borrow_mut();
                                k.dbg(&s);
                                k.dbg(&s.to_header());
                            });
                        }
                        Err(e) => exhaust::fmt_err(cx, &e),
                    }
                    match MacsecHeaderSlice::from_slice(input) {
                        Ok(s) => exhaust::macsec_header(cx, &s),
                        Err(e) => exhaust::fmt_err(cx, &e),
                    }
                    true
                });
            }
            8 => {
                let b = if rng.bool() {
                    gen::gen_ipv4(rng, gen::Lie::Any)
                } else {
                    gen::gen_ipv6(rng, gen::Lie::Any)
                };
                let mut bytes = b.bytes;
                if rng.chance(1, 2) && !bytes.is_empty() {
                    bytes.truncate(rng.usize_below(bytes.len().min(80)));
                }
                self.drive(rep, "net header slices", 509, &bytes, |input, cx| {
                    match Ipv4HeaderSlice::from_slice(input) {
                        Ok(s) => exhaust::ipv4_header_slice(cx, &s),
                        Err(e) => exhaust::fmt_err(cx, &e),
                    }
                    match Ipv6HeaderSlice::from_slice(input) {
                        Ok(s) => exhaust::ipv6_header_slice(cx, &s),
                        Err(e) => exhaust::fmt_err(cx, &e),
                    }
                    match IpAuthHeaderSlice::from_slice(input) {
                        Ok(s) => exhaust::auth_slice(cx, &s),
                        Err(e) => exhaust::fmt_err(cx, &e),
                    }
                    match Ipv6RawExtHeaderSlice::from_slice(input) {
                        Ok(s) => exhaust::raw_ext_slice(cx, &s),
                        Err(e) => exhaust::fmt_err(cx, &e),
                    }
                    match Ipv6FragmentHeaderSlice::from_slice(input) {
                        Ok(s) => exhaust::frag_slice(cx, &s),
                        Err(e) => exhaust::fmt_err(cx, &e),
                    }
                    // skip helpers
                    if !input.is_empty() {
                        let first = IpNumber(input[0]);
                        match Ipv6Header::skip_header_extension_in_slice(input, first) {
                            Ok((n, rest)) => {
                                cx.touch(rest, "skip_header_extension_in_slice rest");
                                exhaust::SINK.with(|k| k.borrow_mut().dbg(&n));
                            }
                            Err(e) => exhaust::fmt_err(cx, &e),
                        }
                        match Ipv6Header::skip_all_header_extensions_in_slice(input, first) {
                            Ok((n, rest)) => {
                                cx.touch(rest, "skip_all_header_extensions_in_slice rest");
                                exhaust::SINK.with(|k| k.borrow_mut().dbg(&n));
                            }
                            Err(e) => exhaust::fmt_err(cx, &e),
                        }
                        let mut cur = Cursor::new(input);
                        let r = Ipv6Header::skip_all_header_extensions(&mut cur, first);
                        exhaust::SINK.with(|k| {
                            let mut k = k.borrow_mut();
                            k.dbg(&r.map_err(|e| e.kind()));
                            k.num(cur.position());
                        });
                        let mut cur = Cursor::new(input);
                        let r = Ipv6Header::skip_header_extension(&mut cur, first);
                        exhaust::SINK.with(|k| {
                            let mut k = k.borrow_mut();
                            k.dbg(&r.map_err(|e| e.kind()));
                            k.num(cur.position());
                        });
                    }
                    true
                });
            }
            9 => {
                let b = if rng.bool() {
                    gen::gen_udp(rng, gen::Lie::Any)
                } else {
                    gen::gen_tcp(rng, gen::Lie::Any)
                };
                let mut bytes = b.bytes;
                if rng.chance(1, 2) && !bytes.is_empty() {
                    bytes.truncate(rng.usize_below(bytes.len().min(70)));
                }
                self.drive(rep, "transport header slices", 510, &bytes, |input, cx| {
                    let mut ok = true;
                    match UdpHeaderSlice::from_slice(input) {
                        Ok(s) => {
                            cx.touch(s.slice(), "UdpHeaderSlice::slice");
                            exhaust::SINK.with(|k| {
                                let mut k = k.borrow_mut();
                                k.dbg(&s);
                                k.dbg(&s.to_header());
                            });
                        }
                        Err(e) => exhaust::fmt_err(cx, &e),
                    }
                    match UdpSlice::from_slice(input) {
                        Ok(s) => exhaust::udp_slice(cx, &s),
                        Err(e) => exhaust::fmt_err(cx, &e),
                    }
                    match UdpSlice::from_slice_lax(input) {
                        Ok(s) => exhaust::udp_slice(cx, &s),
                        Err(e) => exhaust::fmt_err(cx, &e),
                    }
                    match TcpHeaderSlice::from_slice(input) {
                        Ok(s) => {
                            cx.touch(s.slice(), "TcpHeaderSlice::slice");
                            cx.touch(s.options(), "TcpHeaderSlice::options");
                            ok &= exhaust::tcp_options_iter(cx, s.options_iterator(), s.options().len());
                            exhaust::SINK.with(|k| {
                                let mut k = k.borrow_mut();
                                k.dbg(&s);
                                k.dbg(&s.to_header());
                                k.dbg(&s.calc_checksum_ipv4_raw([1, 2, 3, 4], [5, 6, 7, 8], &[1, 2, 3]));
                                k.dbg(&s.calc_checksum_ipv6_raw([1; 16], [2; 16], &[1, 2, 3]));
                            });
                        }
                        Err(e) => exhaust::fmt_err(cx, &e),
                    }
                    match TcpSlice::from_slice(input) {
                        Ok(s) => ok &= exhaust::tcp_slice(cx, &s),
                        Err(e) => exhaust::fmt_err(cx, &e),
                    }
                    ok
                });
            }
            10 => {
                let b = gen::gen_arp(rng, gen::Lie::Any);
                let mut bytes = b.bytes;
                if rng.chance(1, 2) && !bytes.is_empty() {
                    bytes.truncate(rng.usize_below(bytes.len()));
                }
                self.drive(rep, "ArpPacketSlice::from_slice", 511, &bytes, |input, cx| {
                    match ArpPacketSlice::from_slice(input) {
                        Ok(s) => exhaust::arp_slice(cx, &s),
                        Err(e) => exhaust::fmt_err(cx, &e),
                    }
                    true
                });
            }
            _ => {
                // MACsec / VLAN slices
                let (t, inner) = gen::gen_net(rng, gen::Lie::None);
                let b = if rng.bool() {
                    gen::wrap_macsec(rng, t, inner, gen::Lie::Any).1
                } else {
                    gen::wrap_vlan(rng, t, inner).1
                };
                let mut bytes = b.bytes;
                if rng.chance(1, 2) && !bytes.is_empty() {
                    bytes.truncate(rng.usize_below(bytes.len().min(60)));
                }
                self.drive(rep, "link ext slices", 512, &bytes, |input, cx| {
                    match MacsecSlice::from_slice(input) {
                        Ok(m) => {
                            exhaust::macsec_header(cx, &m.header);
                            exhaust::SINK.with(|k| k.borrow_mut().dbg(&m));
                            if let Some(p) = m.ether_payload() {
                                exhaust::ether_payload(cx, &p);
                            }
                        }
                        Err(e) => exhaust::fmt_err(cx, &e),
                    }
                    match LaxMacsecSlice::from_slice(input) {
                        Ok(m) => {
                            exhaust::macsec_header(cx, &m.header);
                            exhaust::SINK.with(|k| k.borrow_mut().dbg(&m));
                            if let Some(p) = m.ether_payload() {
                                cx.touch(p.payload, "LaxMacsecSlice::ether_payload");
                            }
                        }
                        Err(e) => exhaust::fmt_err(cx, &e),
                    }
                    match SingleVlanSlice::from_slice(input) {
                        Ok(v) => exhaust::vlan_slice(cx, &v),
                        Err(e) => exhaust::fmt_err(cx, &e),
                    }
                    true
                });
            }
        }
    }
}

impl Monitor for C01 {
    fn engines(&self, tier: Tier) -> Vec<(&'static str, u64)> {
        vec![
            ("hostile", tier.pick(160_000, 2_000_000)),
            ("sweep", tier.pick(1_500, 20_000)),
            ("iplevel", tier.pick(60_000, 800_000)),
            ("single", tier.pick(200_000, 2_500_000)),
            ("typed", tier.pick(300_000, 3_000_000)),
            ("noise", tier.pick(60_000, 600_000)),
            ("corpus", tier.pick(60_000, 800_000)),
            ("mixed", tier.pick(60_000, 800_000)),
        ]
    }

    fn run_case(&mut self, engine: &str, idx: u64, rng: &mut Prng, rep: &mut Report) {
        if self.sparse_render {
            // Miri / valgrind: render every 8th case only
            exhaust::set_render(idx % 8 == 0);
        }
        match engine {
            "corpus" => match gen::corpus::case(idx, rng) {
                Some(case) => {
                    rep.count("corpus_cases");
                    self.whole(rep, case.start, &case.bytes);
                    if case.start == Start::Ip {
                        self.ip_level(rep, &case.bytes);
                    }
                }
                None => rep.selfcheck_fail("corpus file missing".into()),
            },
            "hostile" => {
                let case = gen::gen_case(rng, &GenOpts::hostile());
                self.whole(rep, case.start, &case.bytes);
            }
            "sweep" => {
                let mut o = GenOpts::clean();
                if rng.chance(1, 3) {
                    o.lie = gen::Lie::Any;
                }
                let base = gen::gen_case(rng, &o);
                let n = base.bytes.len().min(220);
                // (Miri: every 5th truncation point, shifted by the case index)
                let step = if self.sparse_render { 5 } else { 1 };
                let mut cut = if self.sparse_render { (idx % 5) as usize } else { 0 };
                while cut <= n {
                    self.whole(rep, base.start, &base.bytes[..cut]);
                    cut += step;
                }
            }
            "iplevel" => {
                let mut o = GenOpts::hostile();
                o.start = StartSel::Ip;
                let case = gen::gen_case(rng, &o);
                self.ip_level(rep, &case.bytes);
            }
            "single" => self.single(rep, rng),
            "typed" => self.typed(rep, rng),
            "mixed" => self.mixed(rep, rng),
            "noise" => {
                // unstructured bytes through every whole-packet start point
                let n = match rng.below(4) {
                    0 => rng.range(0, 24) as usize,
                    1 => rng.range(0, 80) as usize,
                    2 => rng.range(0, 400) as usize,
                    _ => rng.range(0, 2000) as usize,
                };
                let mut bytes = rng.bytes(n);
                if n > 0 && rng.chance(2, 3) {
                    bytes[0] = (if rng.bool() { 0x40 } else { 0x60 }) | (bytes[0] & 0x0f);
                }
                let start = match rng.below(6) {
                    0 => Start::Eth,
                    1 => Start::Sll,
                    2 => Start::Ip,
                    _ => Start::EtherType(*rng.pick(&[0x0800u16, 0x86dd, 0x0806, 0x8100, 0x88e5, 0x88a8, 0x9100])),
                };
                self.whole(rep, start, &bytes);
            }
            _ => {}
        }
    }
}
