//! C13 — TCP options encode and decode faithfully; iteration is bounded.
//!
//! Oracle: `crate::refmodel::tcpopts` (encoder + decoder written from RFC 9293 §3.1, RFC 2018,
//! RFC 7323 with plain indexing). etherparse types are only used as data containers here.
//!
//! (1) element lists (`list_*` engines): `TcpOptions::try_from_elements` / `TcpHeader::set_options`
//!     accept exactly the lists whose encoding fits into 40 octets, the bytes are the reference
//!     encoding followed only by END (0) octets up to the next multiple of four, len /
//!     data_offset / header_len follow, the iterator gives the same elements back and then
//!     nothing; lists that do not fit are rejected with the exact required size.
//! (2) raw option areas (`raw_*` engines): `TcpOptionsIterator::from_slice` (any length 0..=40),
//!     `TcpOptions::try_from_slice` + `elements_iter`, `TcpHeader::set_options_raw` +
//!     `options_iterator`, `TcpHeaderSlice` / `TcpSlice::options_iterator` decode exactly the
//!     reference items, every item consumes exactly its encoding (`rest()` before / after), the
//!     first malformed / unknown option is reported with the real kind / size / remaining length
//!     (every truthful description is accepted when several rules are broken at once), after
//!     END / error / the last octet the iterator stays exhausted, and the number of items never
//!     exceeds the number of octets.
//!
//! Not demanded (the statement does not say it): what `rest()` returns after the iterator
//! terminated, that a rejected `set_options` leaves the header untouched (counted only), and the
//! position of `None`s inside the block array of a SACK element handed to the encoder (the wire
//! format cannot express gaps: the decoded element must be the compacted one).

use super::{Monitor, Tier};
use crate::gen::headers::tcp_option_area;
use crate::prng::Prng;
use crate::refmodel::tcpopts::{self as R, REnd, RErr, ROpt, RParse};
use crate::report::{hex, jstr, Report};
use crate::shell;
use etherparse::{
    TcpHeader, TcpHeaderSlice, TcpOptionElement, TcpOptionReadError, TcpOptionWriteError, TcpOptions, TcpOptionsIterator, TcpSlice,
};

/// lists of 0..=n elements over the nine element shapes
fn list_domain(nmax: u32) -> u64 {
    let mut total = 0u64;
    let mut pow = 1u64;
    for _ in 0..=nmax {
        total += pow;
        pow *= 9;
    }
    total
}

/// idx -> shape list (mixed radix, shorter lists first)
fn list_shape_from_idx(idx: u64, nmax: u32) -> Vec<usize> {
    let mut rem = idx % list_domain(nmax);
    let mut n = 0u32;
    let mut pow = 1u64;
    while rem >= pow {
        rem -= pow;
        pow *= 9;
        n += 1;
    }
    let mut v = Vec::with_capacity(n as usize);
    for _ in 0..n {
        v.push((rem % 9) as usize);
        rem /= 9;
    }
    v
}

const KLR_DOMAIN: u64 = 256 * 256 * 39;
const QUICK_LIST_DEPTH: u32 = 7;
const THOROUGH_LIST_DEPTH: u32 = 8;

fn block(rng: &mut Prng) -> (u32, u32) {
    (rng.u32_corner(), rng.u32_corner())
}

/// an element of the given shape (see refmodel::tcpopts::SHAPE_NAMES); `gap` allows `None`s in
/// front of `Some`s in the SACK block array
fn gen_elem(shape: usize, rng: &mut Prng, gap: bool) -> TcpOptionElement {
    use TcpOptionElement::*;
    match shape {
        0 => Noop,
        1 => MaximumSegmentSize(rng.u16_corner()),
        2 => WindowScale(rng.u8_corner()),
        3 => SelectiveAcknowledgementPermitted,
        4..=7 => {
            let extra = shape - 4;
            let mut rest: [Option<(u32, u32)>; 3] = [None; 3];
            if gap && extra > 0 && extra < 3 {
                // choose `extra` of the three slots
                let mut slots = [0usize, 1, 2];
                for i in 0..2 {
                    let j = i + rng.usize_below(3 - i);
                    slots.swap(i, j);
                }
                let mut chosen = slots[..extra].to_vec();
                chosen.sort();
                for s in chosen {
                    rest[s] = Some(block(rng));
                }
            } else {
                for r in rest.iter_mut().take(extra) {
                    *r = Some(block(rng));
                }
            }
            SelectiveAcknowledgement(block(rng), rest)
        }
        _ => Timestamp(rng.u32_corner(), rng.u32_corner()),
    }
}

/// (reference option, had a `None` in front of a `Some`)
fn to_ref(e: &TcpOptionElement) -> (ROpt, bool) {
    use TcpOptionElement::*;
    match e {
        Noop => (ROpt::Nop, false),
        MaximumSegmentSize(v) => (ROpt::Mss(*v), false),
        WindowScale(v) => (ROpt::WScale(*v), false),
        SelectiveAcknowledgementPermitted => (ROpt::SackPerm, false),
        SelectiveAcknowledgement(first, rest) => {
            let mut blocks = vec![*first];
            let mut seen_none = false;
            let mut gapped = false;
            for r in rest.iter() {
                match r {
                    Some(b) => {
                        if seen_none {
                            gapped = true;
                        }
                        blocks.push(*b);
                    }
                    None => seen_none = true,
                }
            }
            (ROpt::Sack(blocks), gapped)
        }
        Timestamp(a, b) => (ROpt::Ts(*a, *b), false),
    }
}

/// the (compact) element a reference option stands for
fn from_ref(o: &ROpt) -> TcpOptionElement {
    use TcpOptionElement::*;
    match o {
        ROpt::Nop => Noop,
        ROpt::Mss(v) => MaximumSegmentSize(*v),
        ROpt::WScale(v) => WindowScale(*v),
        ROpt::SackPerm => SelectiveAcknowledgementPermitted,
        ROpt::Sack(blocks) => {
            let mut rest: [Option<(u32, u32)>; 3] = [None; 3];
            for (i, b) in blocks.iter().skip(1).take(3).enumerate() {
                rest[i] = Some(*b);
            }
            SelectiveAcknowledgement(blocks[0], rest)
        }
        ROpt::Ts(a, b) => Timestamp(*a, *b),
    }
}

fn err_to_ref(e: &TcpOptionReadError) -> RErr {
    match e {
        TcpOptionReadError::UnexpectedEndOfSlice {
            option_id,
            expected_len,
            actual_len,
        } => RErr::Truncated {
            kind: *option_id,
            need: *expected_len as usize,
            left: *actual_len,
        },
        TcpOptionReadError::UnexpectedSize { option_id, size } => RErr::BadLength {
            kind: *option_id,
            len: *size,
        },
        TcpOptionReadError::UnknownId(k) => RErr::UnknownKind(*k),
    }
}

fn err_variant(e: &TcpOptionReadError) -> &'static str {
    match e {
        TcpOptionReadError::UnexpectedEndOfSlice { .. } => "UnexpectedEndOfSlice",
        TcpOptionReadError::UnexpectedSize { .. } => "UnexpectedSize",
        TcpOptionReadError::UnknownId(_) => "UnknownId",
    }
}

fn kind_tag(kind: u8) -> String {
    match kind {
        0 | 1 | 2 | 3 | 4 | 5 | 8 => format!("k{}", kind),
        _ => "unknown".to_string(),
    }
}

fn rerr_kind(e: &RErr) -> u8 {
    match e {
        RErr::Truncated { kind, .. } | RErr::BadLength { kind, .. } | RErr::UnknownKind(kind) => *kind,
    }
}

fn end_class(e: &REnd) -> String {
    match e {
        REnd::Exhausted => "full".to_string(),
        REnd::EndOption { .. } => "end".to_string(),
        REnd::Fault { primary, .. } => format!("E:{}:{}", primary.class(), kind_tag(rerr_kind(primary))),
    }
}

/// item kind sequence of a parse, e.g. "MPTNW" (capped)
fn seq_code(rp: &RParse) -> String {
    let mut s = String::with_capacity(12);
    for (i, (_, o)) in rp.items.iter().enumerate() {
        if i >= 4 {
            s.push('+');
            break;
        }
        s.push(R::SHAPE_CODES[o.shape()]);
    }
    s
}

#[derive(Debug)]
enum Term {
    None,
    Err(TcpOptionReadError),
    Budget,
}

#[derive(Debug)]
struct Item {
    off_before: Option<usize>,
    len_before: usize,
    elem: TcpOptionElement,
    off_after: Option<usize>,
    len_after: usize,
}

#[derive(Debug)]
struct Trace {
    items: Vec<Item>,
    term: Term,
    /// how many of the three extra `next()` calls behind the end returned something
    extra_some: u32,
    /// a `rest()` that is not a part of the area
    outside: bool,
    /// `size_hint()` in front of every `next()` call (also the call that ended the iteration)
    hints: Vec<(usize, Option<usize>)>,
    /// what a clone taken after the first `next()` yielded (rendered), against what the original
    /// went on to yield
    clone_differs: Option<String>,
}

/// offset of `rest` inside `area` (None for an empty rest: its pointer carries no information)
fn off_in(area: &[u8], rest: &[u8]) -> Result<Option<usize>, ()> {
    if rest.len() > area.len() {
        return Err(());
    }
    if rest.is_empty() {
        return Ok(None);
    }
    let a = area.as_ptr() as usize;
    let r = rest.as_ptr() as usize;
    if r < a || r + rest.len() > a + area.len() {
        Err(())
    } else {
        Ok(Some(r - a))
    }
}

/// runs the iterator to its end under a step budget and records `rest()` around every call
fn drive<'a>(mut it: TcpOptionsIterator<'a>, area: &[u8]) -> Trace {
    let mut t = Trace {
        items: Vec::with_capacity(8),
        term: Term::None,
        extra_some: 0,
        outside: false,
        hints: Vec::with_capacity(8),
        clone_differs: None,
    };
    let mut clone_tail: Option<Vec<String>> = None;
    let mut calls = 0usize;
    let mut own_tail: Vec<String> = Vec::new();
    loop {
        if calls == 1 {
            // a clone continues where the original is
            let c = it.clone();
            clone_tail = Some(c.take(area.len() + 2).map(|x| format!("{:?}", x)).collect());
        }
        calls += 1;
        let before = it.rest();
        t.hints.push(it.size_hint());
        let r = it.next();
        if calls > 1 {
            if let Some(x) = &r {
                own_tail.push(format!("{:?}", x));
            }
        }
        let after = it.rest();
        match r {
            Some(Ok(elem)) => {
                let ob = off_in(area, before);
                let oa = off_in(area, after);
                if ob.is_err() || oa.is_err() {
                    t.outside = true;
                }
                t.items.push(Item {
                    off_before: ob.unwrap_or(None),
                    len_before: before.len(),
                    elem,
                    off_after: oa.unwrap_or(None),
                    len_after: after.len(),
                });
                // every option occupies at least one octet
                if t.items.len() > area.len() {
                    t.term = Term::Budget;
                    return t;
                }
            }
            Some(Err(e)) => {
                if off_in(area, after).is_err() {
                    t.outside = true;
                }
                t.term = Term::Err(e);
                break;
            }
            None => {
                if off_in(area, after).is_err() {
                    t.outside = true;
                }
                t.term = Term::None;
                break;
            }
        }
    }
    for _ in 0..3 {
        if it.next().is_some() {
            t.extra_some += 1;
        }
    }
    if let Some(ct) = clone_tail {
        if !matches!(t.term, Term::Budget) && ct != own_tail {
            t.clone_differs = Some(format!("clone yields {:?}, the original {:?}", ct, own_tail));
        }
    }
    t
}

/// a minimal TCP header (data offset taken from the option area) + options + payload
fn raw_tcp_header(rng: &mut Prng, opts: &[u8], payload: usize) -> Vec<u8> {
    let mut b = Vec::with_capacity(20 + opts.len() + payload);
    b.extend_from_slice(&rng.bytes(12));
    // low nibble of octet 12: three reserved bits and NS - none of them is part of the data offset
    let low = if rng.bool() { rng.u8() & 0x0f } else { rng.u8() & 1 };
    b.push((((5 + opts.len() / 4) as u8) << 4) | low);
    b.extend_from_slice(&rng.bytes(7));
    b.extend_from_slice(opts);
    b.extend_from_slice(&rng.bytes(payload));
    b
}

pub struct C13 {
    shape_enc: [u64; 9],
    shape_dec: [u64; 9],
    selfchecked: bool,
}

impl C13 {
    pub fn new() -> C13 {
        C13 {
            shape_enc: [0; 9],
            shape_dec: [0; 9],
            selfchecked: false,
        }
    }

    fn panic(&self, rep: &mut Report, entry: &str, p: &shell::Panicked, input: &[u8]) {
        // the property promises a bounded, total iteration / encoding: a panic is a violation
        rep.violation(&format!("panic|{}|{}", entry, p.location()), format!("{} panicked: {}", entry, p.0), input);
    }

    /// compares what an iterator did on `area` with the reference parse of the same octets;
    /// true if everything is as demanded
    fn judge(&mut self, rep: &mut Report, entry: &str, area: &[u8], tr: &Trace, rp: &RParse) -> bool {
        let n = area.len();
        if tr.outside {
            rep.violation(
                &format!("rest_outside_area|{}", entry),
                format!("{}: rest() returned a slice that is not inside the option area", entry),
                area,
            );
            return false;
        }
        if let Term::Budget = tr.term {
            rep.violation(
                &format!("iterator_budget|{}", entry),
                format!("{}: more than {} items from an area of {} octets", entry, n, n),
                area,
            );
            return false;
        }
        for (i, (off, want)) in rp.items.iter().enumerate() {
            let got = match tr.items.get(i) {
                Some(g) => g,
                None => {
                    let how = match &tr.term {
                        Term::Err(e) => err_variant(e),
                        _ => "None",
                    };
                    rep.violation(
                        &format!("stopped_early|{}|{}|{}", entry, R::SHAPE_NAMES[want.shape()], how),
                        format!(
                            "{}: a well-formed {:?} sits at offset {} but the iterator ended with {:?} after {} items",
                            entry, want, off, tr.term, i
                        ),
                        area,
                    );
                    return false;
                }
            };
            let want_elem = from_ref(want);
            if got.elem != want_elem {
                rep.violation(
                    &format!("item_value|{}|{}", entry, R::SHAPE_NAMES[want.shape()]),
                    format!("{}: item {} at offset {}: expected {:?}, got {:?}", entry, i, off, want_elem, got.elem),
                    area,
                );
                return false;
            }
            let l = want.wire_len();
            let before_ok = got.len_before == n - off && (got.off_before.is_none() || got.off_before == Some(*off));
            let after_ok = got.len_after == n - off - l && (got.off_after.is_none() || got.off_after == Some(off + l));
            if !before_ok || !after_ok {
                rep.violation(
                    &format!("item_consumed|{}|{}", entry, R::SHAPE_NAMES[want.shape()]),
                    format!(
                        "{}: item {} ({:?}) occupies [{}, {}) of {} octets but rest() went from (off {:?}, len {}) to (off {:?}, len {})",
                        entry,
                        i,
                        want,
                        off,
                        off + l,
                        n,
                        got.off_before,
                        got.len_before,
                        got.off_after,
                        got.len_after
                    ),
                    area,
                );
                return false;
            }
            self.shape_dec[want.shape()] += 1;
        }
        if tr.items.len() > rp.items.len() {
            let extra = &tr.items[rp.items.len()];
            rep.violation(
                &format!("extra_item|{}|{}", entry, end_class(&rp.end)),
                format!(
                    "{}: the reference sees {:?} behind {} items but the iterator yields {:?}",
                    entry,
                    rp.end,
                    rp.items.len(),
                    extra.elem
                ),
                area,
            );
            return false;
        }
        match (&rp.end, &tr.term) {
            (REnd::Exhausted, Term::None) | (REnd::EndOption { .. }, Term::None) => {}
            (REnd::Exhausted, Term::Err(e)) | (REnd::EndOption { .. }, Term::Err(e)) => {
                rep.violation(
                    &format!("spurious_error|{}|{}|{}", entry, err_variant(e), end_class(&rp.end)),
                    format!("{}: the list ends with {:?} but the iterator reports {:?}", entry, rp.end, e),
                    area,
                );
                return false;
            }
            (REnd::Fault { off, primary, .. }, Term::None) => {
                rep.violation(
                    &format!("fault_not_reported|{}|{}|{}", entry, primary.class(), kind_tag(rerr_kind(primary))),
                    format!("{}: {:?} at offset {} but the iterator just ends", entry, primary, off),
                    area,
                );
                return false;
            }
            (REnd::Fault { off, primary, admissible }, Term::Err(e)) => {
                let got = err_to_ref(e);
                if !admissible.contains(&got) {
                    rep.violation(
                        &format!(
                            "error_fields|{}|{}|{}|{}",
                            entry,
                            primary.class(),
                            err_variant(e),
                            kind_tag(rerr_kind(primary))
                        ),
                        format!(
                            "{}: option at offset {} ({} octets left): truthful reports are {:?}, got {:?}",
                            entry,
                            off,
                            n - off,
                            admissible,
                            e
                        ),
                        area,
                    );
                    return false;
                }
                if got != *primary {
                    rep.count("err.other_truthful_description");
                }
                rep.count(match e {
                    TcpOptionReadError::UnexpectedEndOfSlice { .. } => "err.UnexpectedEndOfSlice",
                    TcpOptionReadError::UnexpectedSize { .. } => "err.UnexpectedSize",
                    TcpOptionReadError::UnknownId(_) => "err.UnknownId",
                });
            }
            (_, Term::Budget) => {}
        }
        // `Iterator::size_hint` brackets the number of items that are still to come ("iteration is
        // bounded" is what a caller sizing a buffer or a loop from it relies on)
        if !matches!(tr.term, Term::Budget) {
            let total = tr.items.len() + matches!(tr.term, Term::Err(_)) as usize;
            for (i, (lo, hi)) in tr.hints.iter().enumerate() {
                let left = total.saturating_sub(i);
                if *lo > left || hi.map_or(false, |h| h < left) {
                    rep.violation(
                        &format!("size_hint|{}", entry),
                        format!("{}: before next() call {} size_hint() = ({}, {:?}) but {} item(s) were still to come", entry, i + 1, lo, hi, left),
                        area,
                    );
                    return false;
                }
            }
            rep.add("size_hints_checked", tr.hints.len() as u64);
        }
        if let Some(d) = &tr.clone_differs {
            rep.violation(&format!("clone_differs|{}", entry), format!("{}: a clone taken after the first next(): {}", entry, d), area);
            return false;
        }
        if tr.extra_some > 0 {
            rep.violation(
                &format!("not_exhausted|{}|after_{}", entry, end_class(&rp.end)),
                format!(
                    "{}: after the end ({:?}) {} of 3 further next() calls returned an item",
                    entry, rp.end, tr.extra_some
                ),
                area,
            );
            return false;
        }
        true
    }

    /// the header level entry points on an area whose length is a multiple of four (<= 40)
    fn header_paths(&mut self, rep: &mut Report, opts: &[u8], rp: &RParse, rng: &mut Prng) {
        let payload = rng.usize_below(5);
        let bytes = raw_tcp_header(rng, opts, payload);
        rep.evals += 2;
        shell::progress_entry(1310);
        let res = shell::guarded(|| {
            let hs = TcpHeaderSlice::from_slice(&bytes).ok().map(|s| {
                let o = s.options();
                (o.to_vec(), drive(s.options_iterator(), o))
            });
            let ts = TcpSlice::from_slice(&bytes).ok().map(|s| {
                let o = s.options();
                (o.to_vec(), drive(s.options_iterator(), o))
            });
            // the conversions into the owned header copy the option area
            let mut owned: Vec<(&'static str, Option<Vec<u8>>)> = Vec::new();
            owned.push(("TcpHeaderSlice::to_header", TcpHeaderSlice::from_slice(&bytes).ok().map(|s| s.to_header().options.as_slice().to_vec())));
            owned.push(("TcpSlice::to_header", TcpSlice::from_slice(&bytes).ok().map(|s| s.to_header().options.as_slice().to_vec())));
            owned.push(("TcpHeader::from_slice", TcpHeader::from_slice(&bytes).ok().map(|(h, _)| h.options.as_slice().to_vec())));
            owned.push(("TcpHeader::read", TcpHeader::read(&mut std::io::Cursor::new(&bytes[..])).ok().map(|h| h.options.as_slice().to_vec())));
            (hs, ts, owned)
        });
        let (hs, ts, owned) = match res {
            Ok(x) => x,
            Err(p) => {
                self.panic(rep, "TcpHeaderSlice/TcpSlice::options_iterator", &p, &bytes);
                return;
            }
        };
        for (entry, o) in owned {
            rep.evals += 1;
            match o {
                Some(o) if o == opts => rep.count("header_owned_paths.agree"),
                other => {
                    rep.violation(
                        &format!("options_range|{}", entry),
                        format!("{}: the owned header holds options {:?} but the area is {}", entry, other.map(|x| hex(&x)), hex(opts)),
                        &bytes,
                    );
                    return;
                }
            }
        }
        for (entry, r) in [("TcpHeaderSlice::options_iterator", hs), ("TcpSlice::options_iterator", ts)] {
            match r {
                None => {
                    rep.violation(
                        &format!("header_rejected|{}", entry),
                        format!("{}: a TCP header with data offset {} and {} octets is rejected", entry, 5 + opts.len() / 4, bytes.len()),
                        &bytes,
                    );
                }
                Some((o, tr)) => {
                    if o != opts {
                        rep.violation(
                            &format!("options_range|{}", entry),
                            format!("{}: options() is {} but the area is {}", entry, hex(&o), hex(opts)),
                            &bytes,
                        );
                    } else if self.judge(rep, entry, opts, &tr, rp) {
                        rep.count("header_slice_paths.agree");
                    }
                }
            }
        }
    }

    // -----------------------------------------------------------------------------------------
    // (1) element lists
    // -----------------------------------------------------------------------------------------
    fn check_list(&mut self, rep: &mut Report, engine: &str, elems: &[TcpOptionElement], rng: &mut Prng) {
        let mut ropts: Vec<ROpt> = Vec::with_capacity(elems.len());
        let mut gapped = false;
        for e in elems {
            let (r, g) = to_ref(e);
            self.shape_enc[r.shape()] += 1;
            gapped |= g;
            ropts.push(r);
        }
        let raw = R::encode(&ropts);
        let need: usize = ropts.iter().map(|o| o.wire_len()).sum();
        if raw.len() != need {
            rep.selfcheck_fail(format!("reference encoder wrote {} octets for a list of size {}", raw.len(), need));
            return;
        }
        let fits = need <= R::MAX_AREA;
        let want = R::padded(&raw);
        let rp_want = R::parse(&want);
        if fits {
            // who checks the checker: the reference decoder must read back the reference encoding
            let back: Vec<ROpt> = rp_want.items.iter().map(|x| x.1.clone()).collect();
            let end_ok = if want.len() == need {
                rp_want.end == REnd::Exhausted
            } else {
                rp_want.end == (REnd::EndOption { off: need })
            };
            if back != ropts || !end_ok {
                rep.selfcheck_fail(format!("reference decoder does not read back {}: {:?}", hex(&want), rp_want));
                return;
            }
            rep.count("selfcheck.ref_roundtrip");
        }
        let canonical: Vec<TcpOptionElement> = ropts.iter().map(from_ref).collect();
        rep.count("lists");
        if gapped {
            rep.count("lists.with_gapped_sack_array");
        }
        match need {
            0 => rep.count("lists.size_0"),
            37..=39 => rep.count("lists.size_37_39"),
            40 => rep.count("lists.size_40"),
            41 => rep.count("lists.size_41"),
            42..=44 => rep.count("lists.size_42_44"),
            _ => {}
        }

        // --- TcpOptions::try_from_elements -----------------------------------------------------
        rep.evals += 1;
        shell::progress_entry(1301);
        let entry = "TcpOptions::try_from_elements";
        let res = shell::guarded(|| match TcpOptions::try_from_elements(elems) {
            Ok(o) => {
                let bytes = o.as_slice().to_vec();
                let meta = (o.len(), o.len_u8(), o.data_offset(), o.is_empty());
                let tr = drive(o.elements_iter(), o.as_slice());
                let via_trait = TcpOptions::try_from(elems).map(|t| t.as_slice().to_vec());
                Ok((bytes, meta, tr, via_trait))
            }
            Err(e) => Err(e),
        });
        let res = match res {
            Ok(r) => r,
            Err(p) => {
                self.panic(rep, entry, &p, &raw);
                return;
            }
        };
        let mut outcome = "rejected";
        match res {
            Err(TcpOptionWriteError::NotEnoughSpace(n)) => {
                if fits {
                    rep.violation(
                        &format!("list|rejected_fitting|{}", entry),
                        format!("{}: a list of {} octets is rejected with NotEnoughSpace({})", entry, need, n),
                        &raw,
                    );
                    return;
                } else if n != need {
                    rep.violation(
                        &format!("list|required_size|{}", entry),
                        format!("{}: the list needs {} octets, NotEnoughSpace({}) reported", entry, need, n),
                        &raw,
                    );
                    return;
                }
                // the trait door rejects with the same required size
                rep.evals += 1;
                match shell::guarded(|| TcpOptions::try_from(elems).map(|t| t.as_slice().to_vec())) {
                    Ok(Err(TcpOptionWriteError::NotEnoughSpace(m))) if m == need => rep.count("lists.rejected_by_trait_door_too"),
                    Ok(other) => {
                        rep.violation(
                            "list|try_from_trait_differs|rejected",
                            format!("a list of {} elements needing {} octets: try_from_elements reports NotEnoughSpace({}), TryFrom<&[TcpOptionElement]> gives {:?}", elems.len(), need, n, other),
                            &raw,
                        );
                        return;
                    }
                    Err(p) => {
                        self.panic(rep, "TcpOptions::try_from(&[TcpOptionElement])", &p, &raw);
                        return;
                    }
                }
                rep.count("lists.rejected");
                if elems.len() > 40 {
                    rep.count("lists.more_than_40_elements");
                }
            }
            Ok((bytes, (len, len_u8, data_offset, is_empty), tr, via_trait)) => {
                if !fits {
                    rep.violation(
                        &format!("list|accepted_over_40|{}", entry),
                        format!("{}: a list of {} octets is accepted ({} option octets)", entry, need, bytes.len()),
                        &raw,
                    );
                    return;
                }
                outcome = "accepted";
                if bytes.len() != want.len() || len != want.len() || len_u8 as usize != want.len() || is_empty != want.is_empty() {
                    rep.violation(
                        &format!("list|len|{}", entry),
                        format!(
                            "{}: {} octets of options need a {} octet area: as_slice {} len {} len_u8 {} is_empty {}",
                            entry,
                            need,
                            want.len(),
                            bytes.len(),
                            len,
                            len_u8,
                            is_empty
                        ),
                        &raw,
                    );
                    return;
                }
                if data_offset as usize != 5 + want.len() / 4 {
                    rep.violation(
                        &format!("list|data_offset|{}", entry),
                        format!("{}: data_offset {} for {} option octets", entry, data_offset, want.len()),
                        &raw,
                    );
                    return;
                }
                if bytes[..need] != raw[..] {
                    let at = (0..need).find(|i| bytes[*i] != raw[*i]).unwrap_or(0);
                    let mut shape = "?";
                    let mut p = 0;
                    for o in &ropts {
                        if at < p + o.wire_len() {
                            shape = R::SHAPE_NAMES[o.shape()];
                            break;
                        }
                        p += o.wire_len();
                    }
                    rep.violation(
                        &format!("list|encoding|{}|{}", entry, shape),
                        format!("{}: encoded {} but the reference encoding is {} (first difference at {})", entry, hex(&bytes), hex(&raw), at),
                        &raw,
                    );
                    return;
                }
                if bytes[need..].iter().any(|b| *b != 0) {
                    rep.violation(
                        &format!("list|padding|{}", entry),
                        format!("{}: padding behind {} octets is {}", entry, need, hex(&bytes[need..])),
                        &raw,
                    );
                    return;
                }
                match via_trait {
                    Ok(b) if b == bytes => {}
                    other => {
                        rep.violation(
                            "list|try_from_trait_differs",
                            format!("TryFrom<&[TcpOptionElement]> gives {:?}, try_from_elements {}", other, hex(&bytes)),
                            &raw,
                        );
                        return;
                    }
                }
                // the same elements and then only padding
                if !self.judge(rep, "TcpOptions::elements_iter", &want, &tr, &rp_want) {
                    return;
                }
                let got: Vec<&TcpOptionElement> = tr.items.iter().map(|i| &i.elem).collect();
                if got.len() != canonical.len() || got.iter().zip(canonical.iter()).any(|(a, b)| *a != b) {
                    rep.violation(
                        "list|roundtrip|TcpOptions::elements_iter",
                        format!("encoded {:?}, iterating gives {:?}", canonical, got),
                        &raw,
                    );
                    return;
                }
                rep.count("lists.accepted");
                rep.count(match want.len() - need {
                    0 => "lists.accepted.pad_0",
                    1 => "lists.accepted.pad_1",
                    2 => "lists.accepted.pad_2",
                    _ => "lists.accepted.pad_3",
                });
                if gapped {
                    rep.count("lists.accepted.gapped_sack_compacted");
                }
            }
        }

        // --- TcpHeader::set_options ------------------------------------------------------------
        let prior: Vec<u8> = if rng.bool() { vec![1u8; 4 * rng.usize_below(11)] } else { Vec::new() };
        rep.evals += 1;
        shell::progress_entry(1302);
        let entry = "TcpHeader::set_options";
        let res = shell::guarded(|| {
            let mut h = TcpHeader::new(rng.u16(), rng.u16(), rng.u32(), rng.u16());
            let _ = h.set_options_raw(&prior);
            let r = h.set_options(elems);
            let opts = h.options.as_slice().to_vec();
            let tr = drive(h.options_iterator(), h.options.as_slice());
            let hb = h.to_bytes().to_vec();
            (r, opts, h.header_len(), h.header_len_u16(), h.data_offset(), tr, hb)
        });
        let (r, opts, header_len, header_len_u16, data_offset, tr, hb) = match res {
            Ok(x) => x,
            Err(p) => {
                self.panic(rep, entry, &p, &raw);
                return;
            }
        };
        match r {
            Err(TcpOptionWriteError::NotEnoughSpace(n)) => {
                if fits || n != need {
                    rep.violation(
                        &format!("list|{}|{}", if fits { "rejected_fitting" } else { "required_size" }, entry),
                        format!("{}: the list needs {} octets, NotEnoughSpace({}) reported", entry, need, n),
                        &raw,
                    );
                    return;
                }
                if opts == prior {
                    rep.count("set_options.rejected_keeps_previous_options");
                } else {
                    rep.note("NOTE a rejected set_options changed the options of the header (not demanded by C13)");
                }
            }
            Ok(()) => {
                if !fits {
                    rep.violation(
                        &format!("list|accepted_over_40|{}", entry),
                        format!("{}: a list of {} octets is accepted", entry, need),
                        &raw,
                    );
                    return;
                }
                if opts != want {
                    rep.violation(
                        &format!("list|encoding|{}", entry),
                        format!("{}: options are {} but reference encoding + padding is {}", entry, hex(&opts), hex(&want)),
                        &raw,
                    );
                    return;
                }
                let hl = 20 + want.len();
                if header_len != hl || header_len_u16 as usize != hl || data_offset as usize != hl / 4 {
                    rep.violation(
                        &format!("list|header_len|{}", entry),
                        format!(
                            "{}: {} option octets: header_len {} header_len_u16 {} data_offset {}",
                            entry,
                            want.len(),
                            header_len,
                            header_len_u16,
                            data_offset
                        ),
                        &raw,
                    );
                    return;
                }
                if hb.len() != hl || (hb[12] >> 4) as usize != hl / 4 || hb[20..] != want[..] {
                    rep.violation(
                        &format!("list|to_bytes|{}", entry),
                        format!("{}: serialized header {} does not carry data offset {} / options {}", entry, hex(&hb), hl / 4, hex(&want)),
                        &raw,
                    );
                    return;
                }
                if !self.judge(rep, "TcpHeader::options_iterator", &want, &tr, &rp_want) {
                    return;
                }
                rep.count("set_options.accepted");
                if rng.chance(1, 4) {
                    self.header_paths(rep, &want, &rp_want, rng);
                }
            }
        }
        // --- PacketBuilder .tcp(..).options(..): one more encoding door, also on top of earlier options
        if rng.chance(1, 8) {
            rep.evals += 1;
            shell::progress_entry(1303);
            let entry = "PacketBuilder::tcp().options";
            let with_prior = rng.bool();
            let res = shell::guarded(|| {
                let step = etherparse::PacketBuilder::ipv4([1, 2, 3, 4], [5, 6, 7, 8], 20).tcp(1, 2, 3, 4);
                let step = if with_prior {
                    step.options(&[TcpOptionElement::MaximumSegmentSize(0x1234), TcpOptionElement::WindowScale(3)]).unwrap()
                } else {
                    step
                };
                match step.options(elems) {
                    Ok(b) => {
                        let mut out = Vec::new();
                        b.write(&mut out, &[]).map_err(|e| format!("{:?}", e))?;
                        Ok(Some(out))
                    }
                    Err(TcpOptionWriteError::NotEnoughSpace(n)) => Err::<Option<Vec<u8>>, String>(format!("NotEnoughSpace({})", n)),
                }
            });
            match res {
                Err(p) => {
                    self.panic(rep, entry, &p, &raw);
                    return;
                }
                Ok(Err(e)) => {
                    if fits || e != format!("NotEnoughSpace({})", need) {
                        rep.violation(
                            &format!("list|{}|{}", if fits { "rejected_fitting" } else { "required_size" }, entry),
                            format!("{}: the list needs {} octets, {} reported", entry, need, e),
                            &raw,
                        );
                        return;
                    }
                    rep.count("builder_options.rejected");
                }
                Ok(Ok(Some(out))) => {
                    // IPv4 header (20) + TCP header
                    let tcp = &out[20..];
                    let hl = 4 * (tcp[12] >> 4) as usize;
                    if !fits || hl != 20 + want.len() || tcp.len() != hl || tcp[20..hl] != want[..] {
                        rep.violation(
                            &format!("list|encoding|{}", entry),
                            format!(
                                "{}{}: the written TCP header carries options {} (data offset {}), reference encoding + padding is {}",
                                entry,
                                if with_prior { " (after an earlier .options call)" } else { "" },
                                hex(&tcp[20.min(tcp.len())..hl.min(tcp.len())]),
                                hl / 4,
                                hex(&want)
                            ),
                            &raw,
                        );
                        return;
                    }
                    rep.count(if with_prior { "builder_options.replaced_earlier_options" } else { "builder_options.accepted" });
                }
                Ok(Ok(None)) => {}
            }
        }
        // distinct behaviour: engine, set of element shapes, size class, verdict. Non-trivial:
        // at least one element.
        if !elems.is_empty() {
            let mut mask = 0u32;
            for o in &ropts {
                mask |= 1 << o.shape();
            }
            let size = if need <= 44 { need } else { 45 + (need / 40).min(8) };
            rep.sig(&format!("list|{}|{:03x}|{}|{}", engine, mask, size, outcome));
        }
        if rep.want_sample() && elems.len() >= 3 {
            rep.sample(format!(
                "{{\"engine\":{},\"elements\":{},\"encoded_size\":{},\"reference_hex\":{},\"outcome\":{}}}",
                jstr(engine),
                jstr(&format!("{:?}", elems)),
                need,
                jstr(&hex(&raw)),
                jstr(outcome)
            ));
        }
    }

    // -----------------------------------------------------------------------------------------
    // (2) raw option areas
    // -----------------------------------------------------------------------------------------
    fn check_area(&mut self, rep: &mut Report, engine: &str, area: &[u8], rng: &mut Prng) {
        let n = area.len();
        let rp = R::parse(area);
        rep.count("areas");
        rep.count(match n {
            0 => "areas.len_0",
            1 => "areas.len_1",
            2 => "areas.len_2",
            3 => "areas.len_3",
            4..=11 => "areas.len_4_11",
            12..=23 => "areas.len_12_23",
            24..=39 => "areas.len_24_39",
            40 => "areas.len_40",
            _ => "areas.len_over_40",
        });
        if n % 4 != 0 {
            rep.count("areas.len_not_multiple_of_4");
        }

        // --- the raw iterator ------------------------------------------------------------------
        if n <= R::MAX_AREA {
            rep.evals += 1;
            shell::progress_entry(1320);
            let entry = "TcpOptionsIterator::from_slice";
            match shell::guarded(|| drive(TcpOptionsIterator::from_slice(area), area)) {
                Err(p) => {
                    self.panic(rep, entry, &p, area);
                    return;
                }
                Ok(tr) => {
                    if !self.judge(rep, entry, area, &tr, &rp) {
                        return;
                    }
                    match &rp.end {
                        REnd::Exhausted => {
                            rep.count("areas.fully_tiled");
                            if !rp.items.is_empty() {
                                rep.count("areas.fully_tiled_nonempty");
                            }
                        }
                        REnd::EndOption { off } => {
                            rep.count("areas.end_option");
                            if off + 1 < n && area[off + 1..].iter().any(|b| *b != 0) {
                                rep.count("areas.end_option_hides_nonzero_octets");
                            }
                        }
                        REnd::Fault { primary, admissible, .. } => {
                            rep.count(match primary {
                                RErr::Truncated { .. } => "areas.fault.truncated",
                                RErr::BadLength { .. } => "areas.fault.bad_length",
                                RErr::UnknownKind(_) => "areas.fault.unknown_kind",
                            });
                            if admissible.len() > 1 {
                                rep.count("areas.fault.several_rules_broken");
                            }
                            if !rp.items.is_empty() {
                                rep.count("areas.fault_behind_valid_items");
                            }
                        }
                    }
                    // distinct behaviour: engine class, item kind sequence, how the list ends.
                    // Non-trivial: at least one item or an error.
                    if !rp.items.is_empty() || matches!(rp.end, REnd::Fault { .. }) {
                        let class = if engine.starts_with("raw_exh") || engine == "raw_klr" { "exh" } else { "gen" };
                        rep.sig(&format!("raw|{}|{}|{}", class, seq_code(&rp), end_class(&rp.end)));
                    }
                    if rep.want_sample() && rp.items.len() >= 2 {
                        rep.sample(format!(
                            "{{\"engine\":{},\"area_hex\":{},\"items\":{},\"end\":{}}}",
                            jstr(engine),
                            jstr(&hex(area)),
                            jstr(&format!("{:?}", tr.items.iter().map(|i| &i.elem).collect::<Vec<_>>())),
                            jstr(&format!("{:?}", tr.term))
                        ));
                    }
                }
            }
        }

        // --- TcpOptions::try_from_slice (pads with zeros) ------------------------------------------
        let want = R::padded(area);
        let rp_want = if want.len() == n { rp.clone() } else { R::parse(&want) };
        rep.evals += 1;
        shell::progress_entry(1321);
        let entry = "TcpOptions::try_from_slice";
        let res = shell::guarded(|| match TcpOptions::try_from_slice(area) {
            Ok(o) => {
                let bytes = o.as_slice().to_vec();
                let meta = (o.len(), o.len_u8(), o.data_offset());
                let tr = drive(o.elements_iter(), o.as_slice());
                let arr = from_array(area).map(|t| t.as_slice().to_vec());
                Ok((bytes, meta, tr, arr))
            }
            Err(e) => Err(e),
        });
        match res {
            Err(p) => {
                self.panic(rep, entry, &p, area);
                return;
            }
            Ok(Err(TcpOptionWriteError::NotEnoughSpace(x))) => {
                if n <= R::MAX_AREA || x != n {
                    rep.violation(
                        &format!("raw|{}|{}", if n <= R::MAX_AREA { "rejected_fitting" } else { "required_size" }, entry),
                        format!("{}: {} octets, NotEnoughSpace({})", entry, n, x),
                        area,
                    );
                    return;
                }
                rep.count("raw_set.rejected_over_40");
                return;
            }
            Ok(Ok((bytes, (len, len_u8, data_offset), tr, arr))) => {
                if n > R::MAX_AREA {
                    rep.violation(&format!("raw|accepted_over_40|{}", entry), format!("{}: {} octets accepted", entry, n), area);
                    return;
                }
                if bytes != want || len != want.len() || len_u8 as usize != want.len() || data_offset as usize != 5 + want.len() / 4 {
                    rep.violation(
                        &format!("raw|stored|{}", entry),
                        format!(
                            "{}: expected {} (len {}, data offset {}), stored {} len {} len_u8 {} data_offset {}",
                            entry,
                            hex(&want),
                            want.len(),
                            5 + want.len() / 4,
                            hex(&bytes),
                            len,
                            len_u8,
                            data_offset
                        ),
                        area,
                    );
                    return;
                }
                if let Some(a) = arr {
                    if a != area {
                        rep.violation("raw|stored|TcpOptions::from_array", format!("From<[u8; {}]> stores {}", n, hex(&a)), area);
                        return;
                    }
                    rep.count("raw_set.from_array");
                }
                if !self.judge(rep, "TcpOptions::elements_iter", &want, &tr, &rp_want) {
                    return;
                }
                rep.count("raw_set.try_from_slice");
            }
        }

        // --- header level ----------------------------------------------------------------------------
        if rng.chance(1, 3) {
            rep.evals += 1;
            shell::progress_entry(1322);
            let entry = "TcpHeader::set_options_raw";
            let res = shell::guarded(|| {
                let mut h = TcpHeader::new(rng.u16(), rng.u16(), rng.u32(), rng.u16());
                let r = h.set_options_raw(area);
                let opts = h.options.as_slice().to_vec();
                let tr = drive(h.options_iterator(), h.options.as_slice());
                (r, opts, h.header_len(), h.data_offset(), tr)
            });
            match res {
                Err(p) => {
                    self.panic(rep, entry, &p, area);
                    return;
                }
                Ok((r, opts, header_len, data_offset, tr)) => {
                    if r.is_err() || opts != want || header_len != 20 + want.len() || data_offset as usize != 5 + want.len() / 4 {
                        rep.violation(
                            &format!("raw|stored|{}", entry),
                            format!(
                                "{}: expected Ok, {} , header_len {}; got {:?}, {}, header_len {}, data_offset {}",
                                entry,
                                hex(&want),
                                20 + want.len(),
                                r,
                                hex(&opts),
                                header_len,
                                data_offset
                            ),
                            area,
                        );
                        return;
                    }
                    if !self.judge(rep, "TcpHeader::options_iterator", &want, &tr, &rp_want) {
                        return;
                    }
                    rep.count("raw_set.set_options_raw");
                }
            }
            self.header_paths(rep, &want, &rp_want, rng);
        }
    }

    /// a list whose encoding has exactly `target` octets
    fn list_of_size(rng: &mut Prng, target: usize, gap: bool) -> Vec<TcpOptionElement> {
        let mut v = Vec::new();
        let mut left = target;
        // small elements are preferred now and then so that long lists happen as well
        let small = rng.chance(1, 3);
        while left > 0 {
            let shape = if small { *rng.pick(&[0usize, 0, 0, 3, 2, 1, 8, 4]) } else { rng.usize_below(9) };
            let s = R::SHAPE_SIZES[shape];
            if s <= left {
                v.push(gen_elem(shape, rng, gap));
                left -= s;
            } else if rng.chance(1, 4) {
                v.push(gen_elem(0, rng, gap));
                left -= 1;
            }
        }
        v
    }
}

/// the `From<[u8; N]>` conversions (N = 4, 8, .. 40)
fn from_array(area: &[u8]) -> Option<TcpOptions> {
    macro_rules! arr {
        ($n:expr) => {{
            let mut a = [0u8; $n];
            a.copy_from_slice(area);
            Some(TcpOptions::from(a))
        }};
    }
    match area.len() {
        4 => arr!(4),
        8 => arr!(8),
        12 => arr!(12),
        16 => arr!(16),
        20 => arr!(20),
        24 => arr!(24),
        28 => arr!(28),
        32 => arr!(32),
        36 => arr!(36),
        40 => arr!(40),
        _ => None,
    }
}

impl Monitor for C13 {
    fn engines(&self, tier: Tier) -> Vec<(&'static str, u64)> {
        vec![
            // every list of 0..=depth elements over the nine element shapes
            ("list_exh", tier.pick(list_domain(QUICK_LIST_DEPTH), list_domain(THOROUGH_LIST_DEPTH))),
            // lists with a chosen encoded size around the 40 octet limit
            ("list_fit", tier.pick(1_500_000, 150_000_000)),
            ("list_rand", tier.pick(1_000_000, 100_000_000)),
            // all byte strings of length 0, 1, 2
            ("raw_exh", 1 + 256 + 65_536),
            // all byte strings of length 3
            ("raw_exh3", 1 << 24),
            // every (kind, length octet, octets left 2..=40) behind a valid prefix
            ("raw_klr", tier.pick(KLR_DOMAIN, 4 * KLR_DOMAIN)),
            ("raw_grammar", tier.pick(2_000_000, 200_000_000)),
            ("raw_rand", tier.pick(1_500_000, 150_000_000)),
            ("raw_mut", tier.pick(1_500_000, 150_000_000)),
            ("api", tier.pick(500_000, 50_000_000)),
        ]
    }

    fn run_case(&mut self, engine: &str, idx: u64, rng: &mut Prng, rep: &mut Report) {
        if !self.selfchecked {
            self.selfchecked = true;
            for f in R::selfcheck() {
                rep.selfcheck_fail(format!("refmodel::tcpopts: {}", f));
            }
        }
        match engine {
            "api" => super::api::c13(rep, rng),
            "list_exh" => {
                // the depth follows from the index: the quick domain is a prefix of the thorough one
                let shapes = list_shape_from_idx(idx, THOROUGH_LIST_DEPTH);
                let elems: Vec<TcpOptionElement> = shapes.iter().map(|s| gen_elem(*s, rng, false)).collect();
                rep.count(match shapes.len() {
                    0 => "exh.list_shapes_len_0",
                    1 => "exh.list_shapes_len_1",
                    2 => "exh.list_shapes_len_2",
                    3 => "exh.list_shapes_len_3",
                    4 => "exh.list_shapes_len_4",
                    5 => "exh.list_shapes_len_5",
                    6 => "exh.list_shapes_len_6",
                    7 => "exh.list_shapes_len_7",
                    _ => "exh.list_shapes_len_8",
                });
                self.check_list(rep, "list_exh", &elems, rng);
            }
            "list_fit" => {
                let target = rng.range(24, 56) as usize;
                let gap = rng.chance(1, 6);
                let elems = Self::list_of_size(rng, target, gap);
                self.check_list(rep, "list_fit", &elems, rng);
            }
            "list_rand" => {
                let gap = rng.chance(1, 4);
                let n = match rng.below(4) {
                    0 => rng.usize_below(4),
                    1 => rng.usize_below(12),
                    2 => rng.usize_below(48),
                    _ => rng.usize_below(24),
                };
                // (lists of more than 40 elements: longer than the area has octets)
                let n = if rng.chance(1, 16) { 38 + rng.usize_below(30) } else { n };
                let noopy = rng.chance(1, 2);
                let elems: Vec<TcpOptionElement> = (0..n)
                    .map(|_| {
                        let shape = if noopy && rng.chance(3, 4) { *rng.pick(&[0usize, 0, 0, 3, 2]) } else { rng.usize_below(9) };
                        gen_elem(shape, rng, gap)
                    })
                    .collect();
                self.check_list(rep, "list_rand", &elems, rng);
            }
            "raw_exh" => {
                let i = idx % (1 + 256 + 65_536);
                let area: Vec<u8> = if i == 0 {
                    rep.count("exh.raw_len_0");
                    vec![]
                } else if i <= 256 {
                    rep.count("exh.raw_len_1");
                    vec![(i - 1) as u8]
                } else {
                    rep.count("exh.raw_len_2");
                    let v = i - 257;
                    vec![(v >> 8) as u8, (v & 0xff) as u8]
                };
                self.check_area(rep, "raw_exh", &area, rng);
            }
            "raw_exh3" => {
                let v = idx % (1 << 24);
                rep.count("exh.raw_len_3");
                let area = [(v >> 16) as u8, ((v >> 8) & 0xff) as u8, (v & 0xff) as u8];
                self.check_area(rep, "raw_exh3", &area, rng);
            }
            "raw_klr" => {
                let v = idx % KLR_DOMAIN;
                let kind = (v / (256 * 39)) as u8;
                let lenb = ((v / 39) % 256) as u8;
                let left = 2 + (v % 39) as usize;
                rep.count("exh.raw_kind_len_left");
                // a valid prefix in the room that is left
                let room = R::MAX_AREA - left;
                let mut area: Vec<u8> = Vec::with_capacity(40);
                if room > 0 && rng.chance(2, 3) {
                    let target = rng.usize_below(room + 1);
                    for e in Self::list_of_size(rng, target, false) {
                        to_ref(&e).0.encode_into(&mut area);
                    }
                }
                area.push(kind);
                area.push(lenb);
                let mut tail = rng.bytes(left - 2);
                if rng.chance(1, 3) {
                    // let the tail continue with something decodable
                    let l = lenb as usize;
                    if l >= 2 && l < left {
                        for (i, b) in tcp_option_area(rng, left - l).into_iter().enumerate() {
                            tail[l - 2 + i] = b;
                        }
                    }
                }
                area.extend_from_slice(&tail);
                self.check_area(rep, "raw_klr", &area, rng);
            }
            "raw_grammar" => {
                let words = rng.usize_below(11);
                let mut area = tcp_option_area(rng, 4 * words);
                if rng.chance(1, 3) && !area.is_empty() {
                    let cut = rng.usize_below(area.len() + 1);
                    area.truncate(cut);
                }
                self.check_area(rep, "raw_grammar", &area, rng);
            }
            "raw_rand" => {
                let n = if rng.chance(1, 50) { rng.range(41, 48) as usize } else { rng.usize_below(41) };
                let mut area = rng.bytes(n);
                if rng.chance(3, 4) {
                    // bytes from the alphabet that matters
                    const ALPHA: [u8; 16] = [0, 1, 1, 2, 3, 4, 5, 8, 10, 18, 26, 34, 2, 3, 4, 9];
                    for b in area.iter_mut() {
                        if rng.chance(3, 4) {
                            *b = ALPHA[(*b & 15) as usize];
                        }
                    }
                }
                self.check_area(rep, "raw_rand", &area, rng);
            }
            "raw_mut" => {
                let target = rng.usize_below(41);
                let mut area = Vec::with_capacity(44);
                for e in Self::list_of_size(rng, target, false) {
                    to_ref(&e).0.encode_into(&mut area);
                }
                let mut area = if rng.bool() { R::padded(&area) } else { area };
                match rng.below(5) {
                    0 => {
                        let cut = rng.usize_below(area.len() + 1);
                        area.truncate(cut);
                    }
                    1 | 2 if !area.is_empty() => {
                        let i = rng.usize_below(area.len());
                        area[i] = *rng.pick(&[0u8, 1, 2, 3, 4, 5, 8, 10, 18, 26, 34, 9, 255, 6, 7, 42]);
                    }
                    3 if !area.is_empty() => {
                        let i = rng.usize_below(area.len());
                        area[i] = area[i].wrapping_add(if rng.bool() { 1 } else { 0xff });
                    }
                    _ => {}
                }
                self.check_area(rep, "raw_mut", &area, rng);
            }
            _ => {}
        }
    }

    fn finish(&mut self, rep: &mut Report) {
        for i in 0..9 {
            if self.shape_enc[i] > 0 {
                rep.add(&format!("elem.encoded.{}", R::SHAPE_NAMES[i]), self.shape_enc[i]);
            }
            if self.shape_dec[i] > 0 {
                rep.add(&format!("elem.decoded.{}", R::SHAPE_NAMES[i]), self.shape_dec[i]);
            }
        }
    }
}
