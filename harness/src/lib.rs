//! epverif — library part of the etherparse runtime-monitoring harness (monitors, reference
//! models, generators, observation adapters). The worker binary is src/main.rs.

#![allow(clippy::all)]
#![allow(dead_code)]

pub mod arena;
pub mod gen;
pub mod monitors;
pub mod neutral;
pub mod observe;
pub mod prng;
pub mod refmodel;
pub mod report;
pub mod shell;


pub mod fuzz;
